#!/usr/bin/env python3
"""MANIFEST.setup_cmd: build what the checks need from files on disk only (offline)."""
import os, subprocess, sys
HERE = os.path.dirname(os.path.dirname(os.path.abspath(__file__)))


def main():
    os.makedirs(os.path.join(HERE, "evidence"), exist_ok=True)
    os.makedirs(os.path.join(HERE, "replays"), exist_ok=True)
    os.makedirs(os.path.join(HERE, ".amc_home"), exist_ok=True)
    nat = os.path.join(HERE, "native")
    if os.path.exists(os.path.join(nat, "Makefile")):
        subprocess.check_call(["make", "-C", nat, "-s"])
    # sanity: amoco importable from /repo
    import amoco
    print("setup ok; amoco from", os.path.dirname(amoco.__file__))


if __name__ == "__main__":
    main()
