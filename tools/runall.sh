#!/bin/bash
# run every check of the given tier and summarise (exit code, violations, known, wall)
tier=${1:-quick}
cd "$(dirname "$0")/.."
for id in C01 C02 C03 C04 C05 C06 C07 C08 C09 C10 C11 C12 C13 C14 C15 C16 C17 C18 C19 C20; do
  dump=""; [ -n "$DUMPDIR" ] && dump="--dump $DUMPDIR/${tier}_$id.json"
  out=$(/venv/bin/python -m amc check $id --tier $tier $dump 2>&1); rc=$?
  nv=$(echo "$out" | grep -c "^VIOLATION")
  echo "$id rc=$rc violations=$nv $(echo "$out" | grep "^property=" | sed 's/.*wall=\([0-9.]*s\).*known=\([0-9]*\)/wall=\1 known=\2/')"
  echo "$out" | grep -A2 "^VIOLATION\|HARNESS" | head -12
done
