#!/usr/bin/env python3
"""Generate the vendored reference tables /verif/tables/x86_{32,64}_quick.json.gz
(objdump + llvm-objdump) for the current candidate enumeration."""
import sys, os
sys.path.insert(0, os.path.dirname(os.path.dirname(os.path.abspath(__file__))))
from amc import core
core.quiet_amoco()
from amc import x86ref
from amc.checks import c07
tier = sys.argv[1] if len(sys.argv) > 1 else "quick"
for isa, mode in c07.MODES:
    cands = c07.enumerate_candidates(isa, tier)
    table = {}
    c07.extend_table(table, cands, mode)
    x86ref.save_table(x86ref.table_path(core.VERIF, mode, tier), table)
    print(mode, len(cands), "rows", sum(1 for v in table.values() if v[0]), "eligible", os.path.getsize(x86ref.table_path(core.VERIF, mode, tier)), "bytes")
