#!/bin/bash
# usage: try_mutant.sh <patch.diff> <tier> <ID> [<ID>...]
# applies the patch to /repo, runs the listed checks, reverts the tree. Prints one line per check.
patch=$1; tier=$2; shift 2
cd /repo || exit 2
if [ -n "$(git status --porcelain -uno)" ]; then echo "repo dirty, refusing"; exit 2; fi
git apply "$patch" || { echo "patch does not apply"; exit 2; }
trap 'git -C /repo checkout -- . ' EXIT
cd /verif
for id in "$@"; do
  out=$(/venv/bin/python -m amc check $id --tier $tier 2>&1); rc=$?
  nv=$(echo "$out" | grep -c "^VIOLATION")
  echo "$id rc=$rc violations=$nv :: $(echo "$out" | grep -m1 -A2 '^VIOLATION' | tr '\n' ' ' | cut -c1-420)"
done
