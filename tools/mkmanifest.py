#!/usr/bin/env python3
"""Generate /verif/MANIFEST.json from the table below (kept valid at all times)."""
import json, os, sys
HERE = os.path.dirname(os.path.dirname(os.path.abspath(__file__)))
PY = "/venv/bin/python"

CHECKS = {
 "C01": dict(
    category="model_checking",
    technique="bounded exhaustive enumeration of expression trees x all valuations on the real operator API/simplifier/mapper against plain-int two's complement semantics",
    text="All well-sized trees up to the operator bound over the written-down leaf/operator alphabet are built with the real API; for every "
         "valuation of the domain (complete at width<=4) the built form, three simplify variants (via an independent structural walker) and "
         "mapper evaluation are compared with int arithmetic. Any rewrite-rule or constant-operator defect whose smallest witness is inside the bound is found on every run.",
    note="Bound: <=2 operators at w=3 (quick), <=2 at w in 1,2,3,4,8 and <=3 over the re-association sub-alphabet (thorough); 1 operator at widths 1..128; complexity threshold off and small. "
         "Sign-sensitive operators take operands whose every leaf and node was declared signed/unsigned. Trusted: amc/ref/bv.py, amc/gen/exprs.py. Added after the seeded-change experiments: a raw-node route (top operator built with the node classes, then each simplify option), compositions of 3-4 parts combined with constants/sliced, all bit slices of mem(p,16/32) in both endiannesses, and trees with unknown (top) leaves (widths only).",
    design="DESIGN.md section 3, C01"),
 "C09": dict(
    category="model_checking",
    technique="bounded exhaustive enumeration of load/store programs over two symbolic pointers x all concrete pointer assignments (equal, overlapping by -4..4 bytes, disjoint) on the real mapper against a bytearray execution",
    text="Every program up to the length bound over the store/load alphabet (2 pointers, offsets 0..2, sizes 8..32/64, both endiannesses) is executed symbolically once; for every pointer assignment "
         "the composed concrete result (loaded registers, with mem-with-mods results interpreted by replaying their ordered mods, and every byte of the memory window) must equal the byte-level execution; "
         "with the no-aliasing assumption only for assignments where different pointers do not overlap.",
    note="Bound: length <=2 full alphabet, length 3 reduced (quick) / larger + length 4 reduced (thorough). Known findings: endianness lost in the write trace; aliasing window after a narrower store. Quick also runs all store-only triples and two length-4 families (any/store/store/load over two value registers; store/store/store/load over two offsets). Failing programs are delta-reduced to a minimal failing program before their signature is taken; shadowing is keyed by failure kind, endianness and configuration. Stores also take a constant source (kept as raw bytes by the memory model).",
    design="DESIGN.md section 3, C09"),
 "C10": dict(
    category="model_checking",
    technique="explicit-state BFS over process-global mutable state (module-level register objects' size/sf/etype/_subrefs, internals, regtype.cur, pending prefix) with transitions = decode+symbolic execution/evaluation; invariant = probe blocks evaluate identically (rebuilt and old map objects) in every reachable global state",
    text="Per ISA mode in a fresh process the global state is snapshotted; every spec-driven executable instruction is a transition (plus map evaluation and a failing decode); states are de-duplicated on the snapshot "
         "(restore fidelity and probe reproducibility asserted); in every new global state every probe block - the derived alphabet plus automatically detected sign-sensitive consumers - is rebuilt and evaluated on three concrete "
         "states and the map objects built in the initial state are re-evaluated; all constants must be unchanged. Consumers are also searched per changed global object (an encoding of a sign-sensitive specification whose result depends on that very object), and the probe failures of a global state are attributed to every transition that reaches it. Every candidate instruction object is also executed three times on fresh mappers (the same decoded object is shared by every pass over its block).",
    note="Depth 2 (quick) / 3 (thorough); below the first level only the alphabet is applied. Known findings: semantics that call .signed()/set sf on shared registers (x86 ADD/DEC/SCAS -> IMUL, ARM, tricore, pic18, sh2) and ARM SETEND/BXJ changing internals.",
    design="DESIGN.md section 3, C10"),
 "C11": dict(
    category="model_checking",
    technique="explicit-state exploration of all decode-call sequences (depth 3/4) over a per-ISA menu on the one real disassembler object; state = pending prefix instruction; reference = same call made first in a fresh process",
    text="Per ISA mode every sequence of menu calls (valid, prefix+valid, lone prefixes, two prefixes, prefix+undecodable, undecodable, empty, too short, "
         "inputs whose setup function raises with/without prefix) up to the depth is executed; after every call the pending instruction must be None and the outcome "
         "(bytes, mnemonic, operands, type, misc) must equal the first-call outcome from a fresh process. Exceptions are transitions like any other. The instruction objects returned by the earlier calls of a history "
         "are kept and must still render as in the fresh process after the later calls (x86/x64 menus hold one ModRM instruction in each addressing form of getModRM under two displacements, so that two calls meet in any object such a path shares).",
    note="The reachable state space closes at the single state 'no pending instruction' when the property holds, so all |A|^3 (quick) / |A|^4 (thorough) sequences are run without de-duplication. "
         "Raising inputs are taken from the C17 known-finding witnesses of the same ISA.",
    design="DESIGN.md section 3, C11"),
 "C12": dict(
    category="model_checking",
    technique="bounded exhaustive enumeration of expression trees; width and comp-tiling invariants checked on every construction/simplify/eval/slice result",
    text="Same enumeration as C01; every result object (built, simplified with each option set, evaluated under concrete and partial maps, sliced) "
         "must have the width dictated by construction and every reachable comp must tile [0,size) consistently with smask. A live mapper is also explored: every history (depth 3/4) of whole, byte and one-bit register writes; after each write the register value must have the register width and parts that tile it.",
    note="Same bounds as C01. Trusted: width function of amc/gen/exprs.py and comps_ok of amc/ref/bv.py. Unknown leaves are also run with the complexity threshold on.",
    design="DESIGN.md section 3, C12"),
 "C13": dict(
    category="model_checking",
    technique="explicit-state BFS over operation histories on pools of shared expression objects; invariant = fingerprints of pre-existing members unchanged; pickle round trip of every object reached",
    text="From 5 root pools of deliberately shared objects, every history (depth 2 quick / 3 thorough) of ~40 operation kinds x all operand pairs is executed "
         "on the real API; after every transition the width and the denotation (independent walker, 36 valuations) of every pre-existing member must be unchanged; "
         "sign-flag writes are observed through enclosing sign-sensitive nodes. Every produced expression, mapper and MemoryMap is pickled, restored and compared. (c) One live mapper: every history (depth 3/4) over whole/partial/one-bit register writes, memory writes, reads, read+use, m.use(), memory copies and evaluation/composition of another map in it; every expression read and every copy taken earlier keeps its denotation, and the mapper's content equals a replay of its writes alone (observers have no effect). Restored registers must keep their named sub-registers; the observers include composing the mapper after a concrete state.",
    note="State = tuple of member fingerprints (sound for this property: it only observes width and denotation). Widening simplify may over-approximate the object it is applied to. "
         "Trusted: amc/ref/bv.py walker.",
    design="DESIGN.md section 3, C13"),
 "C14": dict(
    category="model_checking",
    technique="bounded exhaustive enumeration of synthesised ELF images (class x byte order x segment/section/symbol sets x table placements) and generated PE/Mach-O/HEX/SREC inputs, read back by independent struct-based readers; boundary-address queries; all single-nibble record corruptions",
    text="Every image of the ELF lattice is written by an independent struct-based writer and parsed by amoco: every Ehdr/Phdr/Shdr/Sym field, section names, functions/variables tables, entry point, readsegment/readsection contents, "
         "getfileoffset and data() at every segment/section boundary +-1. Shipped ELF/PE samples are cross-read field by field; generated PE32/PE32+ and Mach-O 32/64 header sets with locate/getdata/getfileoffset/getinfo at boundaries; "
         "HEX/SREC streams over all record types, data lengths, boundary addresses and extended-address sequences; every single-nibble corruption of a record must be rejected. PE images carry generated import tables (named and ordinal imports) compared with an independent import reader; Mach-O images also come with a __PAGEZERO and a zero-fill segment; HEX streams cover every sequence of up to three base-address records.",
    note="Structurally valid inputs only (malformed inputs are C20). Trusted: amc/ref/elfio.py and the struct readers in c14.py, written from the format specifications.",
    design="DESIGN.md section 3, C14"),
 "C15": dict(
    category="model_checking",
    technique="bounded exhaustive enumeration of loader inputs (12 ELF machines x segment geometries x filesz/memsz classes x 3 page sizes; generated PE/Mach-O; HEX/SREC/raw; shipped samples) with a byte-for-byte comparison of the task memory against an independent segment table",
    text="Every image is loaded with load_program; every byte of every loadable segment must equal the file byte mapped there, [filesz,memsz) must read as zero (the generated files carry non-zero bytes after each segment), "
         "the program counter must equal the entry point and read_instruction must return the file's bytes. Shipped samples are compared on their constant bytes (relocation slots may hold external symbols). Generated PE imports and generated dynamic ELF32/ELF64 executables (REL/RELA, up to 70000 dynamic symbols): exactly the slots named by the relocations hold the external symbol they bind. Raw/HEX/SREC images are relocated twice and must follow. Mach-O images include a zero-fill segment that must be mapped; a raw task built after the data stream was read from must still hold the whole file.",
    note="Geometries: aligned, unaligned-congruent, two segments sharing a page, adjacent segments; filesz == memsz, bss tail, filesz 0. Known findings: loaders returning None for aarch64/avr/bpf/sh ELF and Mach-O images.",
    design="DESIGN.md section 3, C15"),
 "C16": dict(
    category="model_checking",
    technique="bounded exhaustive enumeration of structure definitions (<=3/4 fields over the field-kind alphabet, packed/natural, pointer size 32/64, unions, trailing variable-length fields) against a C layout calculator validated with gcc and python struct",
    text="For every definition: size, align_value, offsets and offset_of versus the C ABI layout (calculator cross-checked against gcc -m64/-m32 sizeof/_Alignof/offsetof tables on every run), "
         "unpack values versus struct.unpack at the C offsets, pack() of the unpacked values versus the original bytes; LEB128 read/write on ~500 boundary values. Arrays of variable-length records (terminated, counted, LEB128 members) are decoded element by element.",
    note="Failing definitions containing a smaller failing definition are shadowed. ~90 known-finding signatures (pack() of arrays/nested/bitfields/variable fields, padding not emitted, packed alignment, nested struct at unaligned offset) in KNOWN_FINDINGS.json. One-bitfield-per-line members (merging validated against gcc), a union with tail padding, nested structs containing pointers and big-endian counted/bound fields are part of the alphabet; signatures name the nested aggregate type.",
    design="DESIGN.md section 3, C16"),
 "C17": dict(
    category="model_checking",
    technique="complete spec-driven enumeration of instruction words per ISA mode (every field walked, tail/ModRM/SIB/prefix menus) through decode, well-formedness, every formatter, pickle and execution; failures reduced to line-free signatures matched against KNOWN_FINDINGS.json",
    text="For each of ~5600 (spec, mode) pairs of 22 ISA modules the enumerator produces the words that reach every setup function and mnemonic; each distinct byte string goes through the six phases. "
         "The enumeration is deterministic, so the set of failing signatures of the pinned tree is fixed (recorded as known findings) and any new signature is a violation.",
    note="Bound: fields walked one at a time (not the full cross product) except x86 Mod x RM; quick uses 4 prefix sets and the reduced tail menu; thorough adds all 65536 two-byte prefixes per mode. "
         "~500 genuine defects of the pinned tree are listed in KNOWN_FINDINGS.json (signature = ISA, mode, phase, hook/mnemonic, exception type @ innermost function).",
    design="DESIGN.md section 3, C17"),
 "C18": dict(
    category="model_checking",
    technique="explicit-state BFS over all block-insertion histories into cfg.graph (state = support/overlay/edges + inserted set) and exhaustive enumeration of sweep start addresses per ISA against an independent fetch loop and a maximal-run block model",
    text="(b) From one instruction stream every history of <=3 (thorough 4) insertions of contiguous runs is replayed on a fresh real graph; after each insertion the main support must hold pairwise-disjoint blocks whose extents equal their lengths, "
         "containing every inserted instruction exactly once, overlay unused, and a fall-through edge at every split. (a) For 14 ISAs and every start address of a 64-byte window of a synthetic code region: sweep addresses, maximal-run blocks "
         "(delay slots included), support/raw bytes, slicing at every pair of boundaries, cutting at every boundary. (c) Every history (depth 3/4) of getblock / cut of the returned block / graph insertion on one lsweep object: getblock(a) must be the maximal run from a. Blocks are also cut at every non-boundary address (nothing removed); ISAs with delayed branches get every sequence of length 4 over {delayed branch, control flow, plain}. The main region is also written into memory in three adjacent pieces cut inside instructions.",
    note="Known findings (15 signatures = relation of the inserted run to existing nodes x failure mode) listed in KNOWN_FINDINGS.json; histories extending a failing history are shadowed.",
    design="DESIGN.md section 3, C18"),
 "C19": dict(
    category="model_checking",
    technique="bounded exhaustive enumeration of map pairs x configurations on the real merge(); per-location alternative-set membership via independent walker, plus composition with concrete states",
    text="All pairs of maps with <=2 writes over 7 location kinds x 6 value kinds, with/without path conditions, widening on/off, 3 complexity thresholds: "
         "for each written location the merged value must be unknown (top/vecw) or its alternatives must contain each input's value under every valuation "
         "satisfying that input's condition; the same after C >> merged for concrete states C; no location written by neither input appears. Value kinds include a widened (unknown) value: a definite merged value for an unknown input is a violation; a map may redefine the pointer register the other map stores through.",
    note="Bound: <=2 writes per map; 6 valuations; pointer registers do not overlap. Flags may be unknown. Known finding: overlapping writes inside one input map (KNOWN_FINDINGS.json). Nine locations (incl. a store through a vector-valued pointer with displacement); path conditions on data registers and on the base register of the stores (the latter judged by the concrete consequence only). Known findings: stale recorded value with overlapping writes in one input; equality condition on a store base in the second input.",
    design="DESIGN.md section 3, C19"),
 "C02": dict(
    category="model_checking",
    technique="bounded exhaustive enumeration of instruction sequences over automatically derived per-ISA alphabets x concrete start states x configurations; differential execution of the real code (symbolic map composed with the state vs step-by-step)",
    text="Per ISA mode all length-1 programs over the spec-driven executable instructions and all length-2 (thorough: 3) programs over an alphabet with 2-3 instructions per footprint class "
         "are run from several concrete states under every (noaliasing, memtrace) setting; every constant piece of every register of the module's register universe and every constant byte of a 16 KiB "
         "memory window must agree between the two routes. States excluded by the no-aliasing assumption (distinct symbolic pointers overlapping) are filtered out.",
    note="Bound: sequence length 2 (quick) / 3 (thorough) - the property states 1..8. No hand-written expected values: both routes are the real code. Runs where either route raises are C17's business. "
         "Known findings per (ISA, mnemonics, location class) in KNOWN_FINDINGS.json.",
    design="DESIGN.md section 3, C02"),
 "C03": dict(
    category="model_checking",
    technique="exhaustive enumeration of shipped specs and of a bounded synthetic format grammar x walking/all instruction words x endianness x tails, against an independent interpreter of the format language",
    text="fix/mask/size/pfx of every shipped spec (~5600) and of every synthetic format (all compositions of LEN 8/16 into <=3 directives of every kind, both directions, overlap, (*) tails, +/&) "
         "are compared with an independent parser; acceptance and every delivered field (int, Bits, bit string, attribute) are compared on the walking-1/walking-0 words (all 256 words for LEN 8), "
         "both fetch endiannesses, with trailing bytes; every flipped fixed bit and truncation must be rejected. Extractors are bit selections and acceptance a conjunction of literals, so walking words decide them completely.",
    note="Trusted: amc/ref/fmtlang.py written from the ispec docstring. The x86 ModRM macro is checked against the Intel meaning of /r and /digit.",
    design="DESIGN.md section 3, C03"),
 "C04": dict(
    category="model_checking",
    technique="exhaustive model checking of the built decision trees (every node/edge/leaf: routing and order invariants) + differential decode against a reference most-constrained-first scan on witness words of every spec and every compatible spec pair",
    text="The equivalence over all byte strings is split into structural invariants checked on every node of all 25 trees (I1: each spec's fixed bits imply its path; I2: every spec once, leaves ordered by "
         "mask weight then registration order) - which imply that all specs able to accept an input sit in the leaf it reaches, in scan order - and a dynamic part (I3, key computation): tree decode versus "
         "reference scan on each spec's witness words at exact/longer/truncated lengths, with prefixes, on joint words of all compatible pairs, filler and empty inputs, in ARM/Thumb and both fetch endiannesses. Every ISA with prefix specifications also gets two-prefix inputs longer than maxlen.",
    note="Registration order is read from the spec modules imported before the cpu module sorts them in place (fresh process per mode). Known finding: Thumb with big-endian fetch (tree built for little-endian at import).",
    design="DESIGN.md section 3, C04"),
 "C05": dict(
    category="model_checking",
    technique="complete spec-driven enumeration of instruction words per ISA mode; prefix/length/truncation/extension/window relations checked on every decoded instruction",
    text="For every byte string of the spec-driven enumeration (fields walked, tails, x86 ModRM/SIB/prefix menus incl. the 67 address-size override before every ModRM class and every moffs/variable form) that decodes: length within bounds, bytes a prefix of the input, "
         "decoding exactly the consumed bytes, the consumed bytes followed by each tail of the menu, and the maxlen window all yield the same instruction (bytes, mnemonic, operands, type, misc). Every shorter prefix of the consumed bytes that already decodes must decode to the same instruction.",
    note="Same enumerator and bounds as C17. Known findings (dwarf/wasm/msp430 LEB/immediate tails accepted when missing) are listed in KNOWN_FINDINGS.json keyed by (ISA, mode, relation, setup function).",
    design="DESIGN.md section 3, C05"),
 "C06": dict(
    category="model_checking",
    technique="bounded exhaustive enumeration of (encoding, start state) vectors: RISC-V base opcodes encoded from the manual against a reference interpreter; x86-64/IA-32 integer encodings executed natively on this CPU (native/x86run) and by amoco from the same concrete state",
    text="RISC-V: every RV32I/RV64I base opcode with rd/rs1/rs2 over {x0,x1,x2}, boundary immediates, all shift amounts, all load/store sizes, branches, from all pairs of a 12-value boundary set and 4 pc values: destination registers, pc and stored bytes versus an interpreter written from the manual. "
         "x86: ~2400 encodings of the user-mode integer subset (from amoco's spec enumeration plus explicit shift/rotate count sweeps, SETcc/CMOVcc over all conditions) x 20-34 register/flag states: all 16 GPRs, the architecturally defined status flags and the touched scratch memory versus the processor.",
    note="The x86 oracle is this CPU; undefined flags/destinations are masked per Intel SDM; vectors on which the CPU faults are skipped; IA-32 is compared for encodings whose meaning is mode independent. Non-constant amoco results are accepted. ~110 known findings (e.g. SF of logic ops, REP with count 0, CDQ, PUSH imm, RISC-V signed compares/LUI/JALR). An explicit addressing sweep (LEA/MOV over every SIB base x index with every REX.X/REX.B combination, 67-prefixed forms) and 16/32/64-bit CMOVcc forms are part of the enumeration.",
    design="DESIGN.md section 3, C06"),
 "C07": dict(
    category="model_checking",
    technique="complete spec-driven enumeration of 15-byte x86/x64 candidates (every shipped spec, Mod x RM, SIB, prefix, address-size-override and branch menus) compared with a vendored reference table produced by binutils objdump and LLVM llvm-objdump",
    text="Every candidate of the enumeration, in 32- and 64-bit mode, is looked up in the reference table (rows missing from the vendored table - e.g. because a modified tree enumerates new candidates - are computed on the fly with the installed tools). "
         "Where both references agree on a valid instruction and amoco decodes at all, amoco's length must equal theirs and relative jmp/jcc/call/loop displacements must equal target - next address.",
    note="~173 000 candidates, ~135 000 eligible rows compared (quick; includes 67 x mod 0..2 x r/m {0,4,5,6} for every ModRM spec, i.e. the 16-bit addressing table in 32-bit mode); thorough adds all 65 536 two-byte prefixes x 3 tails. The 'random byte strings' clause is replaced by this structured cross product. References: binutils 2.40, LLVM 14.",
    design="DESIGN.md section 3, C07"),
 "C08": dict(
    category="model_checking",
    technique="explicit-state exploration of write/copy/restruct/shift/merge histories on the real MemoryMap against a dict byte-store reference",
    text="Every history of the operation alphabet up to the stated depth is executed on the real MemoryMap/MemoryZone; "
         "after each history every range read (all start addresses -1..10, lengths 1..5, per zone) and the mapper-level "
         "composition in both endiannesses is compared byte for byte with a last-write-wins dict. Coverage statement, not a sample: "
         "no history inside the bound mis-reads.",
    note="Bounded: offsets 0..5, payload menu (raw 1/2/4, reg, cst, comp; both endiannesses), depth 2 (full) / 3 (reduced) quick, 3/4 thorough. "
         "Trusted: the 60-line dict reference and the independent expression walker amc/ref/bv.py. Addresses are given as ints, constants, symbolic pointers and constant-base pointers whose displacement wraps the address size.",
    design="DESIGN.md section 3, C08"),
 "C20": dict(
    category="fault_enumeration",
    technique="exhaustive fault enumeration on read_program: every prefix truncation, every single-byte corruption (4 values) of every header/table byte (thorough: byte pairs), all byte strings of length <=2, magic numbers x fillers, corrupted HEX/SREC lines, cross-format claims; repeating SIGALRM watchdog per call",
    text="A corpus of 8 generated ELF/PE/Mach-O/HEX/SREC images and 6 shipped samples is fed intact (the right format must claim each), truncated at every length, and with every byte of every header/table structure corrupted; "
         "plus all 65 793 strings of <=2 bytes and 126 magic-number inputs. Each call must return a recognised format object or the raw fallback, within 3 s, without a non-format exception.",
    note="~95 000 calls (quick). Unbounded loops are caught by a repeating alarm (survives bare except clauses); allocation is bounded by RLIMIT_AS 4 GiB. Known findings keyed by (exception type, innermost function). The corpus includes generated PE images with import tables (in a section without zero-fill tail).",
    design="DESIGN.md section 3, C20"),
}

PENDING_REASON = "check not built yet in this session (work in progress, see DESIGN.md section 7)"
ALL = ["C%02d" % i for i in range(1, 21)]


def main():
    checks = []
    for pid in ALL:
        if pid not in CHECKS:
            continue
        c = CHECKS[pid]
        checks.append({
            "property_id": pid,
            "quick_cmd": "%s -m amc check %s --tier quick" % (PY, pid),
            "thorough_cmd": "%s -m amc check %s --tier thorough" % (PY, pid),
            "evidence_file": "/verif/evidence/%s.json" % pid,
            "replay_cmd_template": "%s -m amc replay {path}" % PY,
            "engine": "amc",
            "level_claimed": {"category": c["category"], "text": c["text"], "design_ref": c["design"]},
            "level_note": c["note"],
            "technique": c["technique"],
        })
    na = [{"property_id": p, "reason": NA.get(p, PENDING_REASON)} for p in ALL if p not in CHECKS]
    man = {
        "version": 1,
        "setup_cmd": "cd /verif && %s tools/setup.py" % PY,
        "hooks": {
            "guard": "AMOCO_VERIF",
            "enable": "no hooks: every observation is made from Python without source changes (the guard name is reserved, no commit uses it)",
            "baseline_off_cmd": "cd /repo && /venv/bin/python -m pytest -ra -q -p no:cacheprovider --timeout=900 --continue-on-collection-errors",
            "source_commits": [],
            "add_only": True,
        },
        "engines": [{"name": "amc", "path": "/verif/amc", "serves_properties": sorted(CHECKS),
                     "kind_free_text": "hand-written bounded exhaustive explorer (explicit-state BFS/DFS over operation histories "
                                       "and complete enumeration of bounded input spaces) running the real amoco code against "
                                       "boring Python reference models"}],
        "checks": checks,
        "not_applicable": na,
        "notes": "Run from /verif. Exit 0 = held on everything explored (KNOWN-FINDING lines allowed), 1 = VIOLATION, 2 = harness failure. "
                 "Known findings: /verif/KNOWN_FINDINGS.json. amoco is installed editable in /venv from /repo, so checks always run the current tree.",
    }
    with open(os.path.join(HERE, "MANIFEST.json"), "w") as f:
        json.dump(man, f, indent=1)
    print("wrote MANIFEST.json with %d checks, %d not_applicable" % (len(checks), len(na)))


NA = {}

if __name__ == "__main__":
    main()
