#!/bin/bash
# usage: eval_mutant.sh <worktree> <patch.diff> <tier> <ID> [<ID>...]
# evaluates a seeded change WITHOUT touching /repo: the patch is applied inside the scratch worktree and the checks import
# amoco from there (PYTHONPATH). Final confirmation of kept changes is done with try_mutant.sh on /repo itself.
wt=$1; patch=$2; tier=$3; shift 3
git -C "$wt" checkout -q -- amoco || exit 2
git -C "$wt" apply "$patch" || { echo "patch does not apply"; exit 2; }
trap 'git -C "$wt" checkout -q -- amoco' EXIT
cd /verif
for id in "$@"; do
  out=$(PYTHONPATH="$wt" AMC_EVIDENCE_DIR=/tmp/amc_ev AMC_REPLAY_DIR=/tmp/amc_rp /venv/bin/python -m amc check $id --tier $tier 2>&1); rc=$?
  nv=$(echo "$out" | grep -c "^VIOLATION")
  echo "$id rc=$rc violations=$nv :: $(echo "$out" | grep -m1 -A2 '^VIOLATION' | tr '\n' ' ' | cut -c1-460)"
done
