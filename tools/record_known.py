#!/usr/bin/env python3
"""Append the minimal failing cases of a --dump file to KNOWN_FINDINGS.json
(after manual review!).  usage: record_known.py PID dump.json [sig-substring]"""
import json, sys
pid, path = sys.argv[1], sys.argv[2]
flt = sys.argv[3] if len(sys.argv) > 3 else None
k = json.load(open("/verif/KNOWN_FINDINGS.json"))
have = set((f["property"], tuple(f["signature"])) for f in k["findings"])
n = 0
for f in json.load(open(path)):
    if flt and flt not in json.dumps(f["sig"]):
        continue
    key = (pid, tuple(f["sig"]))
    if key in have:
        continue
    have.add(key)
    k["findings"].append({"property": pid, "signature": f["sig"], "what_fails": f["what"][:400],
                          "witness": f["case"]})
    n += 1
json.dump(k, open("/verif/KNOWN_FINDINGS.json", "w"), indent=1)
print("added", n)
