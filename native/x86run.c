/* x86run: executes test vectors natively.  See /verif/amc/x86native.py.
 * stdin : repeated { u32 codelen; u8 code[codelen]; u8 in[136]; }
 * stdout: repeated { u8 status; u8 out[136]; u16 nchg; {u16 off; u8 val;}[nchg] }
 * status 0 = ran to completion, otherwise the signal number (vector faulted).
 * Fixed mappings (below 2 GiB so that absolute disp32 addressing reaches them):
 *   CTX 0x20000000 (in regs +0, in flags +0x80, out regs +0x100, out flags +0x180, host rsp +0x200)
 *   SCRATCH 0x20001000 (4096 bytes, pattern (a*13+7)&0xff), CODE 0x20010000 (RWX)            */
#define _GNU_SOURCE
#include <stdio.h>
#include <stdlib.h>
#include <string.h>
#include <signal.h>
#include <setjmp.h>
#include <stdint.h>
#include <unistd.h>
#include <sys/mman.h>

#define CTX     ((uint8_t*)0x20000000UL)
#define SCRATCH ((uint8_t*)0x20001000UL)
#define CODE    ((uint8_t*)0x20010000UL)
static sigjmp_buf jb;
static void handler(int sig) { siglongjmp(jb, sig); }

static int readn(void *p, size_t n) {
    size_t got = 0;
    while (got < n) { ssize_t r = read(0, (char*)p + got, n - got); if (r <= 0) return 0; got += r; }
    return 1;
}
static void writen(const void *p, size_t n) {
    size_t put = 0;
    while (put < n) { ssize_t r = write(1, (const char*)p + put, n - put); if (r <= 0) exit(3); put += r; }
}
int main(void) {
    if (mmap(CTX, 4096, PROT_READ|PROT_WRITE, MAP_PRIVATE|MAP_ANONYMOUS|MAP_FIXED, -1, 0) != CTX) return 2;
    if (mmap(SCRATCH, 4096, PROT_READ|PROT_WRITE, MAP_PRIVATE|MAP_ANONYMOUS|MAP_FIXED, -1, 0) != SCRATCH) return 2;
    if (mmap(CODE, 4096, PROT_READ|PROT_WRITE|PROT_EXEC, MAP_PRIVATE|MAP_ANONYMOUS|MAP_FIXED, -1, 0) != CODE) return 2;
    static uint8_t altstack[65536];
    stack_t ss; ss.ss_sp = altstack; ss.ss_size = sizeof altstack; ss.ss_flags = 0;
    sigaltstack(&ss, NULL);
    struct sigaction sa; memset(&sa, 0, sizeof sa);
    sa.sa_handler = handler; sa.sa_flags = SA_ONSTACK | SA_NODEFER;
    int sigs[] = {SIGSEGV, SIGILL, SIGFPE, SIGBUS, SIGTRAP, SIGSYS};
    for (unsigned i = 0; i < sizeof sigs / sizeof sigs[0]; i++) sigaction(sigs[i], &sa, NULL);
    static uint8_t obuf[1 + 136 + 2 + 3 * 4096];
    for (;;) {
        uint32_t len;
        if (!readn(&len, 4)) break;
        if (len > 4000) return 4;
        memset(CODE, 0xCC, 4096);
        if (!readn(CODE, len)) return 4;
        memset(CTX, 0, 4096);
        if (!readn(CTX, 136)) return 4;
        for (int a = 0; a < 4096; a++) SCRATCH[a] = (uint8_t)(a * 13 + 7);
        volatile int status = 0;
        int sig = sigsetjmp(jb, 1);
        if (sig == 0) { ((void (*)(void))CODE)(); }
        else { __asm__ volatile("cld"); status = sig; }
        size_t n = 0;
        obuf[n++] = (uint8_t)status;
        memcpy(obuf + n, CTX + 0x100, 136); n += 136;
        size_t cpos = n; n += 2;
        unsigned nchg = 0;
        for (int a = 0; a < 4096; a++) {
            if (SCRATCH[a] != (uint8_t)(a * 13 + 7)) { obuf[n++] = a & 0xff; obuf[n++] = a >> 8; obuf[n++] = SCRATCH[a]; nchg++; }
        }
        obuf[cpos] = nchg & 0xff; obuf[cpos + 1] = nchg >> 8;
        writen(obuf, n);
    }
    return 0;
}
