import os, sys, json, time, argparse, importlib


def main():
    from amc import core
    core.isolate()
    ap = argparse.ArgumentParser(prog="amc")
    sub = ap.add_subparsers(dest="cmd", required=True)
    c = sub.add_parser("check")
    c.add_argument("pid")
    c.add_argument("--tier", default="quick")
    c.add_argument("--dump", default=None, help="write all minimal failing cases (triage)")
    r = sub.add_parser("replay")
    r.add_argument("path")
    sub.add_parser("selftest")
    a = ap.parse_args()
    sys.path.insert(0, core.VERIF)
    core.quiet_amoco()
    if a.cmd == "check":
        tier = os.environ.get("VERIF_TIER") or a.tier
        if tier not in ("quick", "thorough"):
            tier = "quick"
        try:
            seed = int(os.environ.get("VERIF_SEED", "0"))
        except ValueError:
            seed = 0
        pid = a.pid.upper()
        t0 = time.time()
        try:
            mod = importlib.import_module("amc.checks.%s" % pid.lower())
            rep = mod.run(tier, seed)
        except Exception:
            import traceback
            traceback.print_exc()
            print("HARNESS-ERROR property=%s check crashed" % pid)
            sys.exit(2)
        sys.exit(core.finish(rep, tier, seed, t0, dump_all=a.dump))
    elif a.cmd == "replay":
        doc = json.load(open(a.path))
        pid = doc["property"]
        mod = importlib.import_module("amc.checks.%s" % pid.lower())
        fails = mod.replay(doc["case"])
        if fails:
            for f in fails:
                print("REPRODUCED property=%s sig=%s\n   %s" % (pid, list(f.sig), f.what))
            sys.exit(1)
        print("not reproduced (property holds on this case)")
        sys.exit(0)
    elif a.cmd == "selftest":
        from amc import selftest
        sys.exit(selftest.main())


if __name__ == "__main__":
    main()
