"""amc -- bounded exhaustive model checking of bdcht/amoco (see /verif/DESIGN.md)."""
