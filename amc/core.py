"""Common machinery: isolation, parallel enumeration, findings protocol,
evidence writing, replay files.  See DESIGN.md section 2."""
import os, sys, json, time, hashlib, subprocess, itertools, traceback, signal
import multiprocessing as mp

VERIF = os.path.dirname(os.path.dirname(os.path.abspath(__file__)))
REPO = os.environ.get("AMC_REPO", "/repo")
KNOWN_PATH = os.path.join(VERIF, "KNOWN_FINDINGS.json")
EVIDENCE_DIR = os.environ.get("AMC_EVIDENCE_DIR") or os.path.join(VERIF, "evidence")
REPLAY_DIR = os.environ.get("AMC_REPLAY_DIR") or os.path.join(VERIF, "replays")
NPROC = int(os.environ.get("AMC_NPROC", "16"))


# ---------------------------------------------------------------- isolation
def isolate():
    """Re-exec once with a pinned environment (hash seed, empty HOME)."""
    if os.environ.get("AMC_ISOLATED") == "1":
        return
    env = dict(os.environ)
    env["AMC_ISOLATED"] = "1"
    env["PYTHONHASHSEED"] = "0"
    home = os.path.join(VERIF, ".amc_home")
    os.makedirs(home, exist_ok=True)
    env["HOME"] = home
    env["PYTHONDONTWRITEBYTECODE"] = "1"
    os.execve(sys.executable, [sys.executable, "-m", "amc"] + sys.argv[1:], env)


def quiet_amoco():
    """import amoco with logging silenced; returns the conf object."""
    import logging
    from amoco.config import conf
    conf.Log.level = "CRITICAL"
    conf.Log.filename = ""
    conf.Log.tempfile = False
    import amoco.logger as L
    try:
        L.Log.loggers  # noqa
    except Exception:
        pass
    logging.disable(logging.CRITICAL)
    return conf


def tree_id():
    try:
        rev = subprocess.run(["git", "-C", REPO, "rev-parse", "--short", "HEAD"],
                             capture_output=True, text=True).stdout.strip()
        dirty = subprocess.run(["git", "-C", REPO, "status", "--porcelain", "-uno"],
                               capture_output=True, text=True).stdout.strip() != ""
        return {"rev": rev, "dirty": dirty}
    except Exception:
        return {"rev": "?", "dirty": True}


# ---------------------------------------------------------------- failures
class Failure(object):
    """One failing case. sig: tuple of short strings (line-number free).
    rank: smaller = simpler (minimal witness is kept per signature)."""
    __slots__ = ("sig", "what", "case", "observed", "expected", "rank")

    def __init__(self, sig, what, case, observed=None, expected=None, rank=0):
        self.sig = tuple(str(s) for s in sig)
        self.what = what
        self.case = case
        self.observed = observed
        self.expected = expected
        self.rank = rank

    def to_json(self):
        return {"sig": list(self.sig), "what": self.what, "case": self.case,
                "observed": self.observed, "expected": self.expected, "rank": self.rank}

    @staticmethod
    def from_json(d):
        return Failure(d["sig"], d["what"], d["case"], d.get("observed"),
                       d.get("expected"), d.get("rank", 0))


def exc_sig(e, tb=None):
    """(exception type, innermost amoco function) -- line-number free."""
    tb = tb or e.__traceback__
    inner = "?"
    for fs in traceback.extract_tb(tb):
        fn = fs.filename
        if "/amoco/" in fn or "/crysp/" in fn:
            mod = fn.split("/amoco/")[-1] if "/amoco/" in fn else "crysp/" + os.path.basename(fn)
            inner = "%s:%s" % (mod.replace(".py", ""), fs.name)
    return (type(e).__name__, inner)


class Report(object):
    def __init__(self, pid, level="model_checking"):
        self.pid = pid
        self.level = level
        self.coverage = {}
        self.failures = []          # list of Failure
        self.assumptions = []
        self.harness_errors = []    # strings -> exit 2
        self.exhaustive = True

    def add(self, f):
        self.failures.append(f)

    def count(self, key, n=1):
        self.coverage[key] = self.coverage.get(key, 0) + n


# ---------------------------------------------------------------- parallel
WORKER_AS_LIMIT = int(os.environ.get("AMC_WORKER_AS_GB", "8")) << 30


def _limit_memory():
    """an operation that tries to allocate without bound must fail with MemoryError inside the worker
    (where the checks see it) instead of getting the worker killed by the kernel"""
    try:
        import resource
        soft, hard = resource.getrlimit(resource.RLIMIT_AS)
        lim = WORKER_AS_LIMIT if hard == resource.RLIM_INFINITY else min(WORKER_AS_LIMIT, hard)
        resource.setrlimit(resource.RLIMIT_AS, (lim, hard))
    except Exception:
        pass


def _init_worker():
    signal.signal(signal.SIGINT, signal.SIG_IGN)
    _limit_memory()
    quiet_amoco()


class WorkerDied(RuntimeError):
    pass


def pmap(func, items, nproc=None, chunksize=1, maxtasks=None, fresh=False):
    """Ordered parallel map over picklable items with fork workers.
    Deterministic: result order == item order. A worker that dies (killed, segfault) raises
    WorkerDied instead of hanging the pool."""
    items = list(items)
    nproc = min(nproc or NPROC, max(1, len(items)))
    if nproc <= 1 and not fresh:
        _init_worker_noint()
        return [func(x) for x in items]
    ctx = mp.get_context("fork")
    if maxtasks is not None:
        # (ProcessPoolExecutor has no per-task recycling with fork: keep multiprocessing.Pool, watched)
        with ctx.Pool(nproc, initializer=_init_worker, maxtasksperchild=maxtasks) as pool:
            return _watched_map(pool, func, items, chunksize)
    from concurrent.futures import ProcessPoolExecutor
    from concurrent.futures.process import BrokenProcessPool
    try:
        with ProcessPoolExecutor(nproc, mp_context=ctx, initializer=_init_worker) as ex:
            return list(ex.map(func, items, chunksize=chunksize))
    except BrokenProcessPool as e:
        raise WorkerDied("a worker process died while running %s (%d items): %r" % (getattr(func, "__name__", func), len(items), e))


def _watched_map(pool, func, items, chunksize):
    """pool.map that notices dead workers (multiprocessing.Pool would wait forever)"""
    res = pool.map_async(func, items, chunksize)
    pids = None
    while True:
        try:
            return res.get(timeout=5)
        except mp.TimeoutError:
            procs = list(getattr(pool, "_pool", []))
            for p in procs:
                if p.exitcode not in (None, 0):
                    pool.terminate()
                    raise WorkerDied("worker pid %s exited with code %s while running %s" % (p.pid, p.exitcode, getattr(func, "__name__", func)))


def _init_worker_noint():
    quiet_amoco()


class TimeLimit(BaseException):
    """not an Exception: the generic handlers of the checks (and of the code under test) must not take it for a failure"""
    pass


class time_limit(object):
    """with time_limit(s): ... raises TimeLimit inside a worker's main thread after s seconds (repeating alarm, so a
    bare 'except:' in the code under test cannot swallow it for good)"""
    def __init__(self, seconds):
        self.seconds = seconds

    def _handler(self, signum, frame):
        raise TimeLimit()

    def __enter__(self):
        self.old = signal.signal(signal.SIGALRM, self._handler)
        signal.setitimer(signal.ITIMER_REAL, self.seconds, 1.0)
        return self

    def __exit__(self, *a):
        signal.setitimer(signal.ITIMER_REAL, 0)
        signal.signal(signal.SIGALRM, self.old)
        return False


def shards(n, k):
    """k index shards of range(n): shard i = indices == i mod k."""
    return [(i, k, n) for i in range(k)]


def run_subprocess_py(code_module, args, timeout):
    """Run `python -m <module> args` in a *fresh* interpreter (for checks whose
    subject is process-global state). Returns (rc, stdout)."""
    env = dict(os.environ)
    p = subprocess.run([sys.executable, "-m", code_module] + list(args), cwd=VERIF,
                       capture_output=True, text=True, timeout=timeout, env=env)
    return p.returncode, p.stdout, p.stderr


# ---------------------------------------------------------------- findings
def load_known():
    if not os.path.exists(KNOWN_PATH):
        return {"findings": [], "fixed": []}
    with open(KNOWN_PATH) as f:
        return json.load(f)


def known_index(pid):
    k = load_known()
    idx = {}
    for f in k.get("findings", []):
        if f["property"] == pid:
            idx[tuple(f["signature"])] = f
    return idx


def case_hash(obj):
    return hashlib.sha256(json.dumps(obj, sort_keys=True, default=str).encode()).hexdigest()[:16]


def write_replay(pid, tier, fail):
    d = os.path.join(REPLAY_DIR, pid)
    os.makedirs(d, exist_ok=True)
    body = {"property": pid, "signature": list(fail.sig), "what": fail.what,
            "case": fail.case, "observed": fail.observed, "expected": fail.expected,
            "tier": tier, "tree": tree_id()}
    path = os.path.join(d, case_hash([pid, list(fail.sig)]) + ".json")
    with open(path, "w") as f:
        json.dump(body, f, indent=1, sort_keys=True, default=str)
    return path


def minimal_per_sig(failures):
    best = {}
    order = []
    for f in failures:
        if f.sig not in best:
            best[f.sig] = f
            order.append(f.sig)
        elif f.rank < best[f.sig].rank:
            best[f.sig] = f
    return [best[s] for s in order]


# ---------------------------------------------------------------- evidence
def _validate_evidence(doc):
    try:
        import jsonschema  # not in /venv normally
    except Exception:
        jsonschema = None
    schema_path = "/root/.vp/EVIDENCE.schema.json"
    if jsonschema and os.path.exists(schema_path):
        jsonschema.validate(doc, json.load(open(schema_path)))
        return
    # built-in minimal validator (mirrors the schema's required keys)
    for k in ("property_id", "tier", "seed", "level", "coverage", "wall_s"):
        assert k in doc, "evidence missing " + k
    assert doc["tier"] in ("quick", "thorough")
    assert isinstance(doc["seed"], int)
    c = doc["coverage"]
    if doc["level"] == "model_checking":
        ks = ("states", "transitions", "traces_validated_against_impl", "samples")
        if all(k in c for k in ks):
            assert c["states"] >= 1 and c["transitions"] >= 1 and len(c["samples"]) >= 1
        else:
            assert c["evaluations"] >= 1 and c["distinct_nontrivial"] >= 2
    else:
        assert c["evaluations"] >= 1 and c["distinct_nontrivial"] >= 2
        assert isinstance(c["rule"], str) and len(c["samples"]) >= 1


def write_evidence(rep, tier, seed, wall, nviol, extra=None):
    os.makedirs(EVIDENCE_DIR, exist_ok=True)
    cov = dict(rep.coverage)
    cov.setdefault("exhaustive", bool(rep.exhaustive))
    doc = {"property_id": rep.pid, "tier": tier, "seed": seed, "level": rep.level,
           "coverage": cov, "assumptions": rep.assumptions, "wall_s": round(wall, 2),
           "violations": nviol, "tree": tree_id()}
    if extra:
        doc.update(extra)
    _validate_evidence(doc)
    path = os.path.join(EVIDENCE_DIR, rep.pid + ".json")
    tmp = path + ".tmp"
    with open(tmp, "w") as f:
        json.dump(doc, f, indent=1, sort_keys=True, default=str)
    os.replace(tmp, path)
    return path


# ---------------------------------------------------------------- driver
def finish(rep, tier, seed, t0, dump_all=None):
    """Apply the findings protocol, write evidence, return the exit code."""
    known = known_index(rep.pid)
    mins = minimal_per_sig(rep.failures)
    new, seen_known = [], []
    for f in mins:
        if f.sig in known:
            seen_known.append(f)
        else:
            new.append(f)
    for f in seen_known:
        print("KNOWN-FINDING: property=%s %s" % (rep.pid, known[f.sig].get("what_fails", f.what)))
    paths = []
    for f in new:
        p = write_replay(rep.pid, tier, f)
        paths.append(p)
        print("VIOLATION property=%s replay=%s" % (rep.pid, p))
        print("   what: %s" % f.what)
        print("   sig : %s" % (list(f.sig),))
    if dump_all:
        with open(dump_all, "w") as fo:
            json.dump([f.to_json() for f in mins], fo, indent=1, default=str)
    wall = time.time() - t0
    extra = {"known_findings_observed": len(seen_known),
             "failing_cases_total": len(rep.failures),
             "failing_signatures": len(mins)}
    if rep.harness_errors:
        extra["harness_errors"] = rep.harness_errors[:20]
    try:
        write_evidence(rep, tier, seed, wall, len(new), extra)
    except Exception as e:  # schema failure = harness failure
        print("HARNESS-ERROR evidence invalid: %r" % (e,))
        return 2
    cov = rep.coverage
    print("property=%s tier=%s seed=%d wall=%.1fs exhaustive=%s states=%s transitions=%s "
          "evaluations=%s new_violations=%d known=%d" % (
              rep.pid, tier, seed, wall, rep.exhaustive, cov.get("states"),
              cov.get("transitions"), cov.get("evaluations"), len(new), len(seen_known)))
    if rep.harness_errors:
        for h in rep.harness_errors[:10]:
            print("HARNESS-ERROR %s" % h)
        return 2
    return 1 if new else 0


def rotate(seq, seed):
    """VERIF_SEED only rotates traversal order; the explored set is unchanged."""
    seq = list(seq)
    if not seq:
        return seq
    k = seed % len(seq)
    return seq[k:] + seq[:k]
