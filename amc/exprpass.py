"""Shared pass over the expression-tree enumeration: produces the C01 (meaning)
and C12 (width / tiling) verdicts in one sweep.  See DESIGN.md C01/C12."""
import json, itertools
from amc import core
from amc.core import Failure, exc_sig
from amc.ref import bv
from amc.ref.bv import Unknown, mask
from amc.gen import exprs as X

_MAPPERS = {}
RAW_MAXOPS = 1


def aux_val(va, vb, w):
    return (va * 5 + vb * 3 + w) & mask(w)


def valuation(W, va, vb, widths):
    val = {"a": va, "b": vb}
    for w in widths:
        val["a%d" % w] = aux_val(va, vb, w)
    return val


def mapper_for(W, va, vb, widths, partial=False):
    key = (W, va, vb, partial)
    m = _MAPPERS.get(key)
    if m is None:
        from amoco.cas.mapper import mapper
        from amoco.cas.expressions import reg, cst
        m = mapper()
        m[reg("a", W)] = cst(va, W)
        if not partial:
            m[reg("b", W)] = cst(vb, W)
            for w in widths:
                if w != W:
                    m[reg("a%d" % w, w)] = cst(aux_val(va, vb, w), w)
        else:
            m[reg("zz", 8)] = cst(1, 8)
        _MAPPERS[key] = m
    return m


def valuations_for(t, W, widths):
    regs = X.regs_of(t)
    if W <= 3:
        dom = list(range(1 << W))
    elif W == 4:
        dom = list(range(16))
    else:
        m = mask(W)
        dom = sorted(set(v & m for v in [0, 1, 2, W - 1, W, W + 1, 1 << (W - 1), (1 << (W - 1)) - 1, m, m - 1, 0x55555555555555555555555555555555 & m]))
    ha = "a" in regs
    hb = "b" in regs
    haux = any(r not in ("a", "b") for r in regs)
    if not regs:
        return [(0, 0)]
    A = dom if (ha or haux) else [0]
    B = dom if (hb or (haux and not ha)) else [0]
    if haux and not ha and not hb:
        # aux registers only: vary va so that the aux value takes all values
        return [(v, 0) for v in dom]
    return [(x, y) for x in A for y in B]


SIMP_OPTS = [("simplify", {}), ("simplify-bitslice", {"bitslice": True}), ("simplify-widening", {"widening": True})]


def render(e):
    """structural rendering including sign flags (used to skip identical re-walks)"""
    k = type(e).__name__
    if k in ("cst", "sym"):
        return "c%x:%d%s" % (e.v, e.size, "s" if e.sf else "")
    if k == "reg":
        return "%s:%d%s" % (e.ref, e.size, "s" if e.sf else "")
    if k == "slc":
        return "%s[%d:%d]%s" % (render(e.x), e.pos, e.pos + e.size, "s" if e.sf else "")
    if k == "comp":
        return "{%s}%s" % (",".join("%d:%s" % (a, render(e.parts[(a, b)])) for (a, b) in sorted(e.parts)), "s" if e.sf else "")
    if k == "op":
        return "(%s %s %s)%s" % (render(e.l), e.op.symbol, render(e.r), "s" if e.sf else "")
    if k == "uop":
        return "(%s %s)%s" % (e.op.symbol, render(e.r), "s" if e.sf else "")
    if k == "tst":
        return "(%s?%s:%s)" % (render(e.tst), render(e.l), render(e.r))
    if k in ("vec", "vecw"):
        return "%s[%s]" % (k, ",".join(render(x) for x in e.l))
    return "%s:%d" % (k, e.size)


def ref_values(t, val):
    """set of acceptable reference values (signed % accepts both conventions)"""
    rv = X.ref_eval(t, val)
    if '"%"' not in json.dumps(t):
        return (rv,)
    bv.SMOD_FLOOR = True
    try:
        rv2 = X.ref_eval(t, val)
    finally:
        bv.SMOD_FLOOR = False
    return (rv, rv2)


def has_div(t):
    js = json.dumps(t)
    return '"/"' in js or '"%"' in js


def kind(t):
    return {"r": "r", "c": "c", "T": "T"}.get(t[0], "e")


def flags(t):
    """discrete features of the root node that select rewrite rules"""
    fl = []
    k = t[0]
    if k in ("b", "s", "n"):
        l, r = t[2], t[3]
        w = X.width(l)
        for side, x in (("l", l), ("r", r)):
            if x[0] == "c":
                v = x[1] & mask(w)
                if v == 0: fl.append(side + "0")
                elif v == 1: fl.append(side + "1")
                elif v == mask(w): fl.append(side + "ones")
                elif t[1] in ("<<", ">>", ".>>", ">>>", "<<<") and side == "r" and v >= w: fl.append("amt>=w")
                elif t[1] == "&" and ((v + (v & -v)) & v) == 0: fl.append(side + "mask")
        if l == r and l[0] != "c":
            fl.append("same")
    return "+".join(fl)


def rootsig(t):
    k = t[0]
    if k == "m":
        return "memslice(%s,%s)" % ("le" if t[2] == 1 else "be", "aligned" if (t[3] % 8 == 0 and t[4] % 8 == 0) else ("len8" if (t[4] - t[3]) % 8 == 0 else "bits"))
    if k in ("b", "s", "n"):
        return "%s%s(%s,%s)%s" % ({"b": "", "s": "s", "n": "u"}[k], t[1], kind(t[2]), kind(t[3]), ("{" + flags(t) + "}") if flags(t) else "")
    if k == "u":
        return "u%s(%s)" % (t[1], kind(t[2]) if t[2][0] in "rc" else rootsig(t[2]).split("(")[0])
    if k == "x":
        return "slice(%s)" % (kind(t[1]) if t[1][0] in "rc" else rootsig(t[1]).split("(")[0])
    if k == "k":
        return "comp(%s)" % ",".join(kind(p) if p[0] in "rc" else rootsig(p).split("(")[0] for p in t[1])
    if k == "t":
        return "tst(%s,%s,%s)" % tuple(kind(p) if p[0] in "rc" else rootsig(p).split("(")[0] for p in t[1:4])
    if k in ("z", "g"):
        return "%sx(%s)" % (k, kind(t[1]) if t[1][0] in "rc" else rootsig(t[1]).split("(")[0])
    return k


class TreeChecker(object):
    def __init__(self, W, widths, threshold):
        self.W = W
        self.widths = widths
        self.threshold = threshold
        self.stats = {"trees": 0, "evals": 0, "const_results": 0, "top_results": 0,
                      "symbolic_results": 0, "walks": 0, "unknown_ref": 0, "simplify_changed": 0,
                      "width_obs": 0, "nontrivial": 0}
        self.out = []

    def fail(self, pid, t, route, mode, what, val=None):
        case = {"tree": t, "W": self.W, "threshold": self.threshold, "route": route}
        if val is not None:
            case["val"] = list(val)
        self.out.append({"pid": pid, "tree": json.dumps(t), "route": route, "mode": mode,
                         "what": what, "case": case, "nops": X.nops(t)})

    def check(self, t):
        st = self.stats
        st["trees"] += 1
        W = self.W
        w = X.width(t)
        try:
            e = X.build(t)
        except ZeroDivisionError as ex:
            if has_div(t):
                return  # a divisor simplifies to the constant 0: outside the property
            self.fail("C01", t, "build", "exc:%s@%s" % exc_sig(ex), "building %s raised %r" % (json.dumps(t), ex))
            return
        except Exception as ex:
            self.fail("C01", t, "build", "exc:%s@%s" % exc_sig(ex), "building %s raised %r" % (json.dumps(t), ex))
            return
        # ---- C12 at construction
        st["width_obs"] += 1
        if e.size != w:
            self.fail("C12", t, "build", "size", "built %s has size %s, expected %d" % (e, e.size, w))
        try:
            msg = bv.comps_ok(e)
        except Exception as ex:
            msg = "comps_ok raised %r" % ex
        if msg:
            self.fail("C12", t, "build", "tiling", "built %s: %s" % (e, msg))
        vals = valuations_for(t, W, self.widths)
        rb = render(e)
        had_const = False
        bad_walk = bad_eval = False
        for (va, vb) in vals:
            val = valuation(W, va, vb, self.widths)
            try:
                rvs = ref_values(t, val)
                rv = rvs[0]
            except Unknown:
                st["unknown_ref"] += 1
                continue
            if not bad_walk:
                st["walks"] += 1
                try:
                    wv = bv.walk(e, bv.Env(val))
                    if wv not in rvs:
                        bad_walk = True
                        self.fail("C01", t, "built", "value",
                                  "%s built as %s denotes %#x under a=%d b=%d, reference %#x" % (json.dumps(t), e, wv, va, vb, rv), (va, vb))
                except Unknown:
                    pass
                except Exception as ex:
                    bad_walk = True
                    self.fail("C12", t, "built", "walk-exc:%s" % type(ex).__name__, "walking %s: %r" % (e, ex), (va, vb))
            if not bad_eval:
                st["evals"] += 1
                m = mapper_for(W, va, vb, self.widths)
                try:
                    r = m(e)
                except ZeroDivisionError as ex:
                    if has_div(t):
                        continue   # an (untaken) branch divides by a zero value: outside the property
                    bad_eval = True
                    self.fail("C01", t, "eval", "exc:%s@%s" % exc_sig(ex), "evaluating %s raised %r" % (e, ex), (va, vb))
                    continue
                except Exception as ex:
                    bad_eval = True
                    self.fail("C01", t, "eval", "exc:%s@%s" % exc_sig(ex),
                              "evaluating %s (%s) under a=%d b=%d raised %r" % (e, json.dumps(t), va, vb, ex), (va, vb))
                    continue
                if r.size != w:
                    bad_eval = True
                    self.fail("C12", t, "eval-concrete", "size", "m(%s).size = %s expected %d (a=%d b=%d)" % (e, r.size, w, va, vb), (va, vb))
                if type(r).__name__ == "cst":
                    st["const_results"] += 1
                    had_const = True
                    if r.v not in rvs:
                        bad_eval = True
                        self.fail("C01", t, "eval", "value",
                                  "m(%s) = %#x under a=%d b=%d, reference %#x [tree %s]" % (e, r.v, va, vb, rv, json.dumps(t)), (va, vb))
                elif r._is_top or not r._is_def:
                    st["top_results"] += 1
                else:
                    st["symbolic_results"] += 1
                    try:
                        wv = bv.walk(r, bv.Env(val))
                        if wv not in rvs:
                            bad_eval = True
                            self.fail("C01", t, "eval", "value-symbolic",
                                      "m(%s) = %s denotes %#x under a=%d b=%d, reference %#x" % (e, r, wv, va, vb, rv), (va, vb))
                    except Unknown:
                        pass
                    except Exception as ex:
                        pass
        if had_const and X.nops(t) > 0:
            st["nontrivial"] += 1
        # ---- simplify variants on fresh builds (simplify is in place)
        for name, opts in SIMP_OPTS:
            try:
                e2 = X.build(t)
                s = e2.simplify(**opts)
            except ZeroDivisionError as ex:
                if has_div(t):
                    continue
                self.fail("C01", t, name, "exc:%s@%s" % exc_sig(ex), "%s of %s raised %r" % (name, json.dumps(t), ex))
                continue
            except Exception as ex:
                self.fail("C01", t, name, "exc:%s@%s" % exc_sig(ex), "%s of %s raised %r" % (name, json.dumps(t), ex))
                continue
            st["width_obs"] += 1
            if s.size != w:
                self.fail("C12", t, name, "size", "%s(%s) = %s has size %s expected %d" % (name, e, s, s.size, w))
            try:
                msg = bv.comps_ok(s)
            except Exception as ex:
                msg = "comps_ok raised %r" % ex
            if msg:
                self.fail("C12", t, name, "tiling", "%s(%s) = %s: %s" % (name, e, s, msg))
            rs = render(s)
            if rs == rb:
                continue
            st["simplify_changed"] += 1
            for (va, vb) in vals:
                val = valuation(W, va, vb, self.widths)
                try:
                    rvs = ref_values(t, val)
                    rv = rvs[0]
                    st["walks"] += 1
                    wv = bv.walk(s, bv.Env(val))
                except Unknown:
                    continue
                except Exception as ex:
                    self.fail("C12", t, name, "walk-exc:%s" % type(ex).__name__, "walking %s: %r" % (s, ex), (va, vb))
                    break
                if wv not in rvs:
                    self.fail("C01", t, name, "value", "%s of %s gives %s = %#x under a=%d b=%d, reference %#x" % (
                        name, json.dumps(t), s, wv, va, vb, rv), (va, vb))
                    break
        # ---- raw construction (no simplification at build time) + each simplify option set
        if X.nops(t) <= RAW_MAXOPS:
            for name, opts in SIMP_OPTS:
                try:
                    e3 = X.build_raw(t)
                    if e3.size != w:
                        self.fail("C12", t, "raw-build", "size", "raw node %s has size %s expected %d" % (e3, e3.size, w))
                        break
                    s3 = e3.simplify(**opts)
                except ZeroDivisionError:
                    continue
                except Exception as ex:
                    self.fail("C01", t, "raw-" + name, "exc:%s@%s" % exc_sig(ex), "raw node of %s: %s raised %r" % (json.dumps(t), name, ex))
                    continue
                st["width_obs"] += 1
                if s3.size != w:
                    self.fail("C12", t, "raw-" + name, "size", "%s of the raw node of %s = %s has size %s expected %d" % (name, json.dumps(t), s3, s3.size, w))
                    continue
                try:
                    msg = bv.comps_ok(s3)
                except Exception as ex:
                    msg = "comps_ok raised %r" % ex
                if msg:
                    self.fail("C12", t, "raw-" + name, "tiling", "%s of raw %s: %s" % (name, json.dumps(t), msg))
                if render(s3) == rb:
                    continue
                for (va, vb) in vals:
                    val = valuation(W, va, vb, self.widths)
                    try:
                        rvs = ref_values(t, val)
                        st["walks"] += 1
                        wv = bv.walk(s3, bv.Env(val))
                    except Unknown:
                        continue
                    except Exception as ex:
                        self.fail("C12", t, "raw-" + name, "walk-exc:%s" % type(ex).__name__, "walking %s: %r" % (s3, ex), (va, vb))
                        break
                    if wv not in rvs:
                        self.fail("C01", t, "raw-" + name, "value", "%s of the raw (unsimplified) node of %s gives %s = %#x under a=%d b=%d, reference %#x" % (
                            name, json.dumps(t), s3, wv, va, vb, rvs[0]), (va, vb))
                        break
        # ---- C12 under partial and symbolic environments, slicing
        for pname, m in (("eval-partial", mapper_for(W, vals[0][0] if vals else 0, 0, self.widths, partial=True)),):
            try:
                r = m(e)
            except ZeroDivisionError as ex:
                if has_div(t):
                    continue  # division by a zero value is outside the property
                self.fail("C01", t, pname, "exc:%s@%s" % exc_sig(ex), "m_partial(%s) raised %r" % (e, ex))
                continue
            except Exception as ex:
                self.fail("C01", t, pname, "exc:%s@%s" % exc_sig(ex), "m_partial(%s) raised %r" % (e, ex))
                continue
            st["width_obs"] += 1
            if r.size != w:
                self.fail("C12", t, pname, "size", "m_partial(%s) = %s has size %s expected %d" % (e, r, r.size, w))
            try:
                msg = bv.comps_ok(r)
            except Exception as ex:
                msg = "comps_ok raised %r" % ex
            if msg:
                self.fail("C12", t, pname, "tiling", "m_partial(%s) = %s: %s" % (e, r, msg))
        if w > 1:
            for (i, j) in ((0, 1), (w - 1, w), (0, w - 1), (1, w)):
                try:
                    sl = e[i:j]
                except Exception as ex:
                    self.fail("C12", t, "slice", "exc:%s@%s" % exc_sig(ex), "(%s)[%d:%d] raised %r" % (e, i, j, ex))
                    break
                st["width_obs"] += 1
                if sl.size != j - i:
                    self.fail("C12", t, "slice", "size", "(%s)[%d:%d] = %s has size %s" % (e, i, j, sl, sl.size))
                    break


def run_chunk(args):
    global RAW_MAXOPS
    W, widths, threshold, trees, RAW_MAXOPS = args
    from amoco.config import conf
    conf.Cas.complexity = threshold
    tc = TreeChecker(W, widths, threshold)
    for t in trees:
        tc.check(t)
    conf.Cas.complexity = 0
    return tc.stats, tc.out


def plan(tier):
    """list of (label, W, n, full_consts, ops or None, threshold)"""
    P = []
    reassoc = set(["+", "-", "&", "|", "^", "x", "-u"])
    if tier == "quick":
        P.append(("w3-n0", 3, 0, True, None, 0))
        P.append(("w3-n1", 3, 1, True, None, 0))
        P.append(("w3-n2", 3, 2, False, None, 0))
        for W in (1, 2, 4, 8, 16, 32, 64, 128):
            P.append(("w%d-n1" % W, W, 1, True, None, 0))
        P.append(("w1-n2", 1, 2, True, None, 0))      # the 1-bit rewrite rules need 1-bit operators as operands
        P.append(("w2-n2", 2, 2, False, None, 0))
        P.append(("w3-n1-thr8", 3, 1, True, None, 8))
        P.append(("w8-n1-thr2", 8, 1, True, None, 2))
        P.append(("w8-multipart", 8, 2, False, "multipart", 0))
        P.append(("w8-n1-top", 8, 1, False, "top", 0))
        P.append(("w3-n2-top", 3, 2, False, "top", 0))
        P.append(("w8-n1-top-thr2", 8, 1, False, "top", 2))      # unknown operands with the complexity threshold on
        P.append(("w3-n2-top-thr2", 3, 2, False, "top", 2))
    else:
        for W in (1, 2, 3, 4, 8):
            P.append(("w%d-n1" % W, W, 1, True, None, 0))
            P.append(("w%d-n2" % W, W, 2, False, None, 0))
        P.append(("w3-n2-full", 3, 2, True, None, 0))
        for W in (16, 32, 64, 128):
            P.append(("w%d-n1" % W, W, 1, True, None, 0))
        P.append(("w3-n3-reassoc", 3, 3, False, "reassoc", 0))
        P.append(("w3-n2-thr8", 3, 2, False, None, 8))
        P.append(("w8-n1-thr2", 8, 1, True, None, 2))
        P.append(("w8-multipart", 8, 2, True, "multipart", 0))
        P.append(("w8-n1-top", 8, 1, True, "top", 0))
        P.append(("w3-n2-top", 3, 2, False, "top", 0))
        P.append(("w4-n2-top", 4, 2, False, "top", 0))
        P.append(("w8-n1-top-thr2", 8, 1, True, "top", 2))
        P.append(("w3-n2-top-thr2", 3, 2, False, "top", 2))
    return P


REASSOC_OPS = set(["+", "-", "&", "|", "^", "x"])


MULTI_PARTITIONS = [(2, 3, 3), (1, 2, 5), (4, 2, 2), (3, 4, 1), (1, 1, 6), (2, 2, 2, 2), (1, 3, 1, 3)]
MULTI_CONSTS = [0x00, 0xFF, 0x5A, 0xA5, 0x81, 0x3C, 0x12, 0xE7]


def multipart_trees(W, full):
    """compositions of 3 and 4 parts (register slices, narrower registers, constants), alone and as an operand of
    & | ^ + - with a constant (both orders), under ~ and unary -, and every slice of them"""
    assert W == 8
    out = []
    for parts in MULTI_PARTITIONS:
        choices = []
        off = 0
        for k, w in enumerate(parts):
            choices.append([["x", ["r", "a", W], off, off + w], ["x", ["r", "b", W], 0, w], ["c", (0xAA >> (k & 1)) & ((1 << w) - 1), w]])
            off += w
        for sel in itertools.product(range(3), repeat=len(parts)):
            if not full and len(parts) == 4 and sum(1 for x in sel if x == 2) > 1:
                continue
            comp = ["k", [choices[i][x] for i, x in enumerate(sel)]]
            out.append(comp)
            for op in ("&", "|", "^", "+", "-"):
                for v in MULTI_CONSTS:
                    out.append(["b", op, comp, ["c", v, W]])
                    if full or op == "-":
                        out.append(["b", op, ["c", v, W], comp])
            out.append(["u", "~", comp])
            out.append(["u", "-", comp])
            for i in range(W):
                for j in range(i + 1, W + 1):
                    if (i, j) != (0, W) and (full or (i + j) % 2 == 0 or j - i == 1):
                        out.append(["x", comp, i, j])
    return out


def trees_of(W, n, full, opsel):
    ops = None
    if opsel == "multipart":
        return multipart_trees(W, full)
    if opsel == "top":
        # trees with at least one unknown ("top") leaf: only widths are decidable
        en = X.Enum(W, top_leaf=True)
        out = []
        for w in en.widths:
            out.extend(t for t in en.trees(n, w, full) if '"T"' in json.dumps(t))
        return out
    if opsel == "reassoc":
        ops = set(["+", "-", "&", "|", "^", "x", "~"])
        en = X.Enum(W, ops=ops, widths=[W])
        return list(en.trees(n, W, full))
    en = X.Enum(W)
    out = []
    for w in en.widths:
        out.extend(en.trees(n, w, full))
    return out


def memslice_unit(args):
    """every bit slice of a symbolic memory cell, both endiannesses: width (C12) and value (C01)"""
    size, E_ = args
    from amoco.cas import expressions as E
    from amoco.cas.mapper import mapper
    out = []
    n = 0
    nbytes = size // 8
    membytes = bytes(((i * 37 + 0x91) & 0xFF) for i in range(nbytes + 2))
    word = int.from_bytes(membytes[:nbytes], "little" if E_ == 1 else "big")
    m = mapper()
    p = E.reg("p", 32)
    m[p] = E.cst(0x1000, 32)
    m.mmap.write(0x1000, membytes)
    for i in range(size):
        for j in range(i + 1, size + 1):
            n += 1
            t = ["m", size, E_, i, j]
            case = {"tree": t, "W": size, "threshold": 0, "route": "memslice"}
            try:
                e = E.mem(p, size, endian=E_)[i:j]
            except Exception as ex:
                out.append({"pid": "C12", "tree": json.dumps(t), "route": "memslice", "mode": "exc:%s@%s" % exc_sig(ex),
                            "what": "mem(p,%d,endian=%d)[%d:%d] raised %r" % (size, E_, i, j, ex), "case": case, "nops": 1})
                continue
            if e.size != j - i:
                out.append({"pid": "C12", "tree": json.dumps(t), "route": "memslice", "mode": "size",
                            "what": "mem(p,%d,endian=%d)[%d:%d] = %s has size %d" % (size, E_, i, j, e, e.size), "case": case, "nops": 1})
                continue
            try:
                r = m(e)
                s2 = e.simplify()
            except Exception as ex:
                out.append({"pid": "C01", "tree": json.dumps(t), "route": "memslice", "mode": "exc:%s@%s" % exc_sig(ex),
                            "what": "evaluating mem(p,%d,endian=%d)[%d:%d] raised %r" % (size, E_, i, j, ex), "case": case, "nops": 1})
                continue
            if r.size != j - i or s2.size != j - i:
                out.append({"pid": "C12", "tree": json.dumps(t), "route": "memslice-eval", "mode": "size",
                            "what": "m(mem(p,%d,endian=%d)[%d:%d]) has size %d / simplify %d" % (size, E_, i, j, r.size, s2.size), "case": case, "nops": 1})
            elif type(r).__name__ == "cst" and r.v != (word >> i) & mask(j - i):
                out.append({"pid": "C01", "tree": json.dumps(t), "route": "memslice-eval", "mode": "value",
                            "what": "m(mem(p,%d,endian=%d)[%d:%d]) = %#x, bits %d..%d of the stored word are %#x" % (size, E_, i, j, r.v, i, j, (word >> i) & mask(j - i)),
                            "case": case, "nops": 1})
    return n, out


def run_pass(tier, seed):
    """returns (failures by pid {pid: [dict]}, stats, planinfo, samples)"""
    allf = []
    tot = {}
    planinfo = []
    samples = []
    for (label, W, n, full, opsel, thr) in plan(tier):
        trees = trees_of(W, n, full, opsel)
        widths = X.Enum(W).widths
        trees = core.rotate(trees, seed)
        nchunks = max(1, min(len(trees) // 200, core.NPROC * 8))
        chunks = [trees[i::nchunks] for i in range(nchunks)]
        rawmax = 2 if (tier != "quick" or ("-top" in label)) else 1
        res = core.pmap(run_chunk, [(W, widths, thr, c, rawmax) for c in chunks if c])
        ps = {}
        for st, out in res:
            for k, v in st.items():
                tot[k] = tot.get(k, 0) + v
                ps[k] = ps.get(k, 0) + v
            allf.extend(out)
        planinfo.append({"plan": label, "W": W, "operators": n, "threshold": thr, "trees": len(trees),
                         "evals": ps.get("evals", 0), "const_results": ps.get("const_results", 0)})
        if trees:
            samples.append({"plan": label, "tree": trees[len(trees) // 2]})
    sizes = (16, 32) if tier == "quick" else (8, 16, 24, 32, 64)
    res = core.pmap(memslice_unit, [(sz, e_) for sz in sizes for e_ in (1, -1)])
    nms = 0
    for n, out in res:
        nms += n
        allf.extend(out)
    tot["trees"] = tot.get("trees", 0) + nms
    tot["width_obs"] = tot.get("width_obs", 0) + nms
    tot["evals"] = tot.get("evals", 0) + nms
    planinfo.append({"plan": "memory-cell-slices", "sizes": list(sizes), "slices": nms})
    return allf, tot, planinfo, samples


def to_failures(allf, pid):
    """shadowing + signatures. A failing tree that contains a failing proper
    subtree (same property) is shadowed."""
    mine = [f for f in allf if f["pid"] == pid]
    failing = set(f["tree"] for f in mine)
    out = []
    shadowed = 0
    for f in sorted(mine, key=lambda f: (f["nops"], len(f["tree"]), f["tree"], f["route"])):
        t = json.loads(f["tree"])
        if any(json.dumps(s) in failing for s in X.proper_subtrees(t)):
            shadowed += 1
            continue
        route = "simplify" if f["route"].startswith("simplify") else ("raw-simplify" if f["route"].startswith("raw-") else f["route"])
        sig = (route, rootsig(t), f["mode"])
        out.append(Failure(sig, f["what"], f["case"], rank=f["nops"] * 1000 + len(f["tree"])))
    return out, shadowed


def replay_case(case, pid):
    from amoco.config import conf
    W = case["W"]
    widths = X.Enum(W).widths
    conf.Cas.complexity = case.get("threshold", 0)
    tc = TreeChecker(W, widths, case.get("threshold", 0))
    tc.check(case["tree"])
    conf.Cas.complexity = 0
    fs, _ = to_failures(tc.out, pid)
    return fs
