"""x86-64 half of C06: encodings from amoco's own spec enumeration (restricted to
a user-mode integer allow-list) plus explicit shift/rotate count sweeps are
executed natively (native/x86run) and by amoco from the same concrete state."""
import os, struct, subprocess, json
from amc import core, isas
from amc.core import Failure, exc_sig

CTX, SCRATCH, CODE = 0x20000000, 0x20001000, 0x20010000
IN_REGS, IN_FLAGS, OUT_REGS, OUT_FLAGS, HOST_RSP = CTX, CTX + 0x80, CTX + 0x100, CTX + 0x180, CTX + 0x200
RUNNER = os.path.join(core.VERIF, "native", "x86run")
REGN = ["rax", "rcx", "rdx", "rbx", "rsp", "rbp", "rsi", "rdi", "r8", "r9", "r10", "r11", "r12", "r13", "r14", "r15"]
CF, PF, AF, ZF, SF, DF, OF = 1, 4, 0x10, 0x40, 0x80, 0x400, 0x800
STATUS = CF | PF | AF | ZF | SF | OF

ALLOW = set("""ADD OR ADC SBB AND SUB XOR CMP TEST INC DEC NEG NOT MUL IMUL DIV IDIV SHL SHR SAR ROL ROR RCL RCR SHLD SHRD
MOV MOVZX MOVSX MOVSXD LEA XCHG XADD CMPXCHG BSWAP BT BTS BTR BTC BSF BSR SETcc CMOVcc CBW CWDE CDQE CWD CDQ CQO LAHF SAHF
CLC STC CMC CLD STD PUSH POP XLATB MOVSB MOVSW MOVSD MOVSQ STOSB STOSW STOSD STOSQ LODSB LODSW LODSD LODSQ SCASB SCASW SCASD SCASQ
CMPSB CMPSW CMPSD CMPSQ POPCNT LZCNT TZCNT ANDN NOP SAL MOVBE""".split())
NO_IA32 = set("PUSH POP MOVSXD CDQE CQO PUSHFQ POPFQ".split())


def undefined_flags(mn, count=None, width=None):
    """status flags left architecturally undefined (Intel SDM vol. 2)"""
    if mn in ("AND", "OR", "XOR", "TEST", "ANDN"):
        return AF
    if mn in ("SHL", "SHR", "SAR", "SAL", "ROL", "ROR", "RCL", "RCR"):
        u = OF | AF
        if mn in ("SHL", "SHR", "SAL", "SAR"):
            u |= CF          # CF undefined when count >= operand width (8/16-bit); masked conservatively only then, see caller
        return u
    if mn in ("SHLD", "SHRD"):
        return OF | AF | CF | SF | ZF | PF
    if mn in ("MUL", "IMUL"):
        return SF | ZF | AF | PF
    if mn in ("DIV", "IDIV"):
        return STATUS
    if mn in ("BT", "BTS", "BTR", "BTC"):
        return OF | SF | AF | PF
    if mn in ("BSF", "BSR"):
        return CF | OF | SF | AF | PF
    if mn in ("TZCNT", "LZCNT"):
        return OF | SF | PF | AF
    if mn in ("POPCNT",):
        return 0
    return 0


def emit_load(reg, addr):
    return bytes([0x48 | (4 if reg >= 8 else 0), 0x8B, ((reg & 7) << 3) | 4, 0x25]) + struct.pack("<I", addr)


def emit_store(reg, addr):
    return bytes([0x48 | (4 if reg >= 8 else 0), 0x89, ((reg & 7) << 3) | 4, 0x25]) + struct.pack("<I", addr)


def build_code(test):
    pro = bytes([0x53, 0x55, 0x41, 0x54, 0x41, 0x55, 0x41, 0x56, 0x41, 0x57])          # push rbx rbp r12-r15
    pro += emit_store(4, HOST_RSP)
    pro += bytes([0xFF, 0x34, 0x25]) + struct.pack("<I", IN_FLAGS) + b"\x9d"           # push [IN_FLAGS]; popfq
    for r in range(16):
        if r != 4:
            pro += emit_load(r, IN_REGS + 8 * r)
    pro += emit_load(4, IN_REGS + 8 * 4)
    epi = b""
    for r in range(16):
        epi += emit_store(r, OUT_REGS + 8 * r)
    epi += emit_load(4, HOST_RSP)
    epi += b"\x9c" + bytes([0x8F, 0x04, 0x25]) + struct.pack("<I", OUT_FLAGS)          # pushfq; pop [OUT_FLAGS]
    epi += b"\xfc"                                                                     # cld
    epi += bytes([0x41, 0x5F, 0x41, 0x5E, 0x41, 0x5D, 0x41, 0x5C, 0x5D, 0x5B, 0xC3])
    return pro + test + epi, len(pro)


def scratch_byte(a):
    return (a * 13 + 7) & 0xFF


def states(tier):
    """list of (label, regs[16], flags)"""
    S = []
    ptr = [SCRATCH + 0x400 + 0x80 * k + (3 if k % 2 else 0) for k in range(16)]
    ptr[4] = SCRATCH + 0x800           # rsp inside the scratch page
    ptr[1] = SCRATCH + 0x480 + 5       # rcx also serves as a count: low byte 0x85 -> masked 5
    S.append(("ptr/f0", list(ptr), 0x202))
    S.append(("ptr/f1", list(ptr), 0x202 | STATUS))
    M = (1 << 64) - 1
    D = [0, 1, M, 1 << 63, (1 << 63) - 1, 0x80000000, 0x7FFFFFFF, 0x5555555555555555, 0xFF, 0x8000, 0xFFFF, 31, 32, 63, 64]
    combos = [(0, 0), (1, 1), (M, 1), (1 << 63, M), ((1 << 63) - 1, 1), (0x80000000, 0x80000000), (0x7FFFFFFF, 1), (0xFF, 1), (0x5555555555555555, 0xAAAAAAAAAAAAAAAA),
              (M, M), (0x8000, 0x7FFF), (2, 31), (3, 32), (5, 63), (7, 64), (0x100, 0xFFFF)]
    if tier == "quick":
        combos = combos[::2] + [(M, 1)]
    for k, (a, c) in enumerate(combos):
        regs = [D[(k + 3 * r) % len(D)] for r in range(16)]
        regs[0], regs[1] = a, c
        regs[2] = D[(k * 5 + 1) % len(D)]
        regs[4] = SCRATCH + 0x800
        for fl in ((0x202, 0x202 | CF) if k % 2 == 0 else (0x202 | STATUS, 0x202 | ZF | OF)):
            S.append(("data%d/f%x" % (k, fl & 0xFFF), list(regs), fl))
    return S


def extra_encodings():
    """explicit shift/rotate sweeps over every count, all four operand sizes, on rax and by cl"""
    E = []
    counts = list(range(0, 34)) + [63, 64, 65, 127, 128, 255]
    for opx in (0, 1, 2, 3, 4, 5, 7):
        for pre, opc in ((b"", 0xC0), (b"\x66", 0xC1), (b"", 0xC1), (b"\x48", 0xC1)):
            for c in counts:
                E.append(pre + bytes([opc, 0xC0 | (opx << 3), c]))
        for pre, opc in ((b"", 0xD2), (b"\x66", 0xD3), (b"", 0xD3), (b"\x48", 0xD3), (b"", 0xD0), (b"\x48", 0xD1)):
            E.append(pre + bytes([opc, 0xC0 | (opx << 3)]))
    # setcc / cmovcc over every condition
    for cc in range(16):
        E.append(bytes([0x0F, 0x90 + cc, 0xC0]))
        E.append(bytes([0x48, 0x0F, 0x40 + cc, 0xC1]))
        E.append(bytes([0x0F, 0x40 + cc, 0xC1]))          # 32-bit form: the upper half is cleared even when not taken
        E.append(bytes([0x66, 0x0F, 0x40 + cc, 0xC1]))    # 16-bit form: the upper bits are kept
    # adc/sbb/add/sub/cmp/and/or/xor reg,reg in four sizes; inc/dec/neg/not; mul/imul/div
    for opc in (0x00, 0x08, 0x10, 0x18, 0x20, 0x28, 0x30, 0x38):
        for pre, o in ((b"", opc), (b"\x66", opc + 1), (b"", opc + 1), (b"\x48", opc + 1)):
            E.append(pre + bytes([o, 0xC8]))         # op rax/eax/ax/al, rcx...
            E.append(pre + bytes([o, 0x03]))         # op [rbx], reg
    for pre in (b"", b"\x66", b"\x48"):
        for opx in (0, 1, 2, 3, 4, 5, 6, 7):
            E.append(pre + bytes([0xF7, 0xC0 | (opx << 3) | 1]) + (b"\x34\x12\x00\x00"[: 2 if pre == b"\x66" else 4] if opx in (0, 1) else b""))
        E.append(pre + bytes([0x0F, 0xAF, 0xC1]))
        E.append(pre + bytes([0x6B, 0xC1, 0xFD]))
        E.append(pre + bytes([0x0F, 0xA4, 0xC8, 0x05]))
        E.append(pre + bytes([0x0F, 0xAD, 0xC8]))
        E.append(pre + bytes([0x0F, 0xBC, 0xC1]))
        E.append(pre + bytes([0x0F, 0xBD, 0xC1]))
        E.append(pre + bytes([0x0F, 0xA3, 0xC8]))
        E.append(pre + bytes([0x0F, 0xBA, 0xE8, 0x47]))
        E.append(pre + bytes([0x0F, 0xC1, 0xC8]))
        E.append(pre + bytes([0x0F, 0xB1, 0xCA]))
    return E


def addressing_encodings(tier):
    """LEA r64,[base+index*scale+disp] over every SIB base x index (x scale) with every REX.X/REX.B combination
    (index=100b with REX.X is r12, a real index; base=101b with mod 0 is disp32), plus 67-prefixed (32-bit address)
    forms and MOV loads through the same addressing bytes"""
    E = []
    full = tier == "thorough"
    scales = (0, 1, 2, 3) if full else (0, 2)
    mods = (0, 1, 2) if full else (0, 1)
    for xb in range(4):
        rex = 0x48 | xb
        for mod in mods:
            for sc in scales:
                for idx in range(8):
                    for base in range(8):
                        sib = (sc << 6) | (idx << 3) | base
                        if mod == 0:
                            disp = b"\x10\x00\x00\x00" if base == 5 else b""
                        elif mod == 1:
                            disp = b"\x10"
                        else:
                            disp = b"\x10\x01\x00\x00"
                        E.append(bytes([rex, 0x8D, (mod << 6) | 0x04, sib]) + disp)
                        if sc == 0 and mod == 0:
                            E.append(bytes([rex, 0x8B, 0x04, sib]) + disp)
                        if mod == 1 and (full or sc == 2) and xb in (0, 3):
                            E.append(bytes([0x67, rex, 0x8D, 0x44, sib]) + disp)
    # REX.R / REX.B on the register-direct and [reg] forms
    for rex in range(0x40, 0x50):
        for rm in range(8):
            E.append(bytes([rex, 0x8D, 0x40 | rm]) + (b"\x24" if rm == 4 else b"") + b"\x08")
            E.append(bytes([rex, 0x89, 0xC0 | rm]))
    return E


def candidates(tier):
    """hex encodings (decoded by amoco x64, mnemonic in the allow-list)"""
    from amc.checks import c02
    cpu = isas.load("x64")
    cands = c02.decode_candidates(cpu, "x64", {}, 12 if tier == "thorough" else 5)
    out = []
    seen = set()
    for h, mn, fp in cands:
        if mn in ALLOW and h not in seen:
            seen.add(h)
            out.append(h)
    for e in extra_encodings() + addressing_encodings(tier):
        if e.hex() not in seen:
            seen.add(e.hex())
            out.append(e.hex())
    return out


def run_native(vectors):
    """vectors: list of (test bytes, regs, flags). returns list of (status, regs, flags, changes dict)"""
    if not os.path.exists(RUNNER):
        raise RuntimeError("native runner %s is not built (run MANIFEST.setup_cmd)" % RUNNER)
    inp = bytearray()
    for test, regs, flags in vectors:
        code, _ = build_code(test)
        inp += struct.pack("<I", len(code)) + code
        inp += struct.pack("<16Q", *[r & 0xFFFFFFFFFFFFFFFF for r in regs]) + struct.pack("<Q", flags)
    p = subprocess.run([RUNNER], input=bytes(inp), capture_output=True, timeout=600)
    out = p.stdout
    res = []
    pos = 0
    for _ in vectors:
        if pos + 139 > len(out):
            res.append(None)
            continue
        status = out[pos]
        regs = struct.unpack_from("<16Q", out, pos + 1)
        flags = struct.unpack_from("<Q", out, pos + 129)[0]
        n = struct.unpack_from("<H", out, pos + 137)[0]
        ch = {}
        q = pos + 139
        for k in range(n):
            off = out[q] | (out[q + 1] << 8)
            ch[off] = out[q + 2]
            q += 3
        pos = q
        res.append((status, regs, flags, ch))
    return res


def amoco_exec(cpu, ins, regs, flags, psz, regobjs, flagreg, pcreg, addr):
    from amoco.cas.mapper import mapper
    from amoco.cas.expressions import cst
    m = mapper()
    for k, r in enumerate(regobjs):
        m[r] = cst(regs[k] & ((1 << psz) - 1), psz)
    m[flagreg] = cst(flags & ((1 << psz) - 1), psz)
    m[pcreg] = cst(addr, psz)
    m.mmap.write(SCRATCH, bytes(scratch_byte(a) for a in range(4096)))
    ins.address = cst(addr, psz)
    ins(m)
    return m


def const_pieces(v):
    k = type(v).__name__
    if k == "cst":
        return [(0, v.size, v.v)]
    if k == "comp":
        return [(a, b, p.v) for (a, b), p in v.parts.items() if type(p).__name__ == "cst"]
    return []


def unit(args):
    tier, hexes = args
    cpu64 = isas.load("x64")
    cpu32 = isas.load("x86")
    S = states(tier)
    fails = []
    stats = {"vectors": 0, "compared": 0, "cpu_faults": 0, "amoco_skipped": 0, "encodings": len(hexes)}
    R64 = [getattr(cpu64, n) for n in REGN]
    R32 = [getattr(cpu32, n) for n in ("eax", "ecx", "edx", "ebx", "esp", "ebp", "esi", "edi")]
    d64, d32 = cpu64.disassemble, cpu32.disassemble
    _, prolen = build_code(b"")
    vectors, meta = [], []
    for h in hexes:
        b = bytes.fromhex(h)
        for (lab, regs, flags) in S:
            vectors.append((b, regs, flags))
            meta.append((h, lab, regs, flags))
    native = run_native(vectors)
    for (h, lab, regs, flags), nat in zip(meta, native):
        stats["vectors"] += 1
        if nat is None or nat[0] != 0:
            stats["cpu_faults"] += 1
            continue
        status, nregs, nflags, changes = nat
        b = bytes.fromhex(h)
        same_in_32 = False     # set when the 64-bit decoding shows the bytes mean the same in IA-32
        for mode in (64, 32):
            if mode == 32:
                if not same_in_32:
                    continue
                if any(x in b[:4] for x in (0x67,)) or (0x40 <= b[0] <= 0x4F) or (len(b) > 1 and b[0] in (0x66, 0xF2, 0xF3) and 0x40 <= b[1] <= 0x4F):
                    continue
            d = d64 if mode == 64 else d32
            setattr(d, "_disassembler__i", None)
            try:
                ins = d(b)
            except Exception:
                setattr(d, "_disassembler__i", None)
                ins = None
            if ins is None or ins.length != len(b):
                continue
            mn = str(ins.mnemonic)
            if any(getattr(o, "_is_mem", False) and "rip" in str(o) for o in ins.operands):
                continue      # rip-relative operands would address the harness code itself (and are absolute in IA-32)
            if mode == 64:
                same_in_32 = True
            if mn == "BSWAP" and 0x66 in b[:2]:
                continue      # 16-bit BSWAP is architecturally undefined
            if mn not in ALLOW or (mode == 32 and (mn in NO_IA32 or mn.startswith(("MOVS", "STOS", "LODS", "SCAS", "CMPS", "XLAT")))):
                continue
            if mode == 32 and any(((r >> 32) != 0) for k, r in enumerate(regs[:8])):
                # IA-32 comparison only from states whose registers fit 32 bits... data states use wide values: compare on truncated inputs is unsound
                continue
            try:
                if mode == 64:
                    m = amoco_exec(cpu64, ins, regs, flags, 64, R64, cpu64.rflags, cpu64.rip, CODE + prolen)
                    robjs, fl, w = R64, cpu64.rflags, 64
                else:
                    m = amoco_exec(cpu32, ins, regs[:8], flags, 32, R32, cpu32.eflags, cpu32.eip, CODE + prolen)
                    robjs, fl, w = R32, cpu32.eflags, 32
            except Exception:
                stats["amoco_skipped"] += 1
                continue
            stats["compared"] += 1
            tag = "x64" if mode == 64 else "x86"
            ops = "/".join(type(o).__name__ + str(o.size) for o in ins.operands)
            diffs = []
            # destination-undefined cases
            skip_regs = set()
            if mn in ("BSF", "BSR") or (mn == "BSWAP" and ins.operands[0].size == 16):
                skip_regs = set(range(16))
            if mn in ("DIV", "IDIV"):
                pass
            for k, r in enumerate(robjs):
                if k in skip_regs:
                    continue
                try:
                    v = m(r)
                except Exception:
                    continue
                want = nregs[k] & ((1 << w) - 1)
                for (a, c, pv) in const_pieces(v):
                    if pv != (want >> a) & ((1 << (c - a)) - 1):
                        diffs.append(("reg", "%s[%d:%d] = %#x, CPU %#x (whole %s vs %#x)" % (REGN[k] if w == 64 else "e" + REGN[k][1:], a, c, pv, (want >> a) & ((1 << (c - a)) - 1), v, want)))
                        break
                if diffs:
                    break
            if not diffs:
                und = undefined_flags(mn)
                if mn in ("SHL", "SHR", "SAR", "SAL"):
                    und = OF | AF | CF if True else und
                    und = OF | AF     # CF compared except when the masked count exceeds the width (below)
                    opw = ins.operands[0].size
                    cnt = None
                    if len(ins.operands) > 1 and getattr(ins.operands[1], "_is_cst", False):
                        cnt = ins.operands[1].v & (63 if opw == 64 else 31)
                    else:
                        cnt = regs[1] & 0xFF & (63 if opw == 64 else 31)
                    if cnt is not None and cnt >= opw:
                        und |= CF
                try:
                    fv = m(fl)
                    for (a, c, pv) in const_pieces(fv):
                        msk = ((1 << (c - a)) - 1) << a
                        cmpmask = msk & STATUS & ~und
                        if (pv << a) & cmpmask != nflags & cmpmask:
                            bad = ((pv << a) ^ nflags) & cmpmask
                            names = [n for n, bit in (("CF", CF), ("PF", PF), ("AF", AF), ("ZF", ZF), ("SF", SF), ("OF", OF)) if bad & bit]
                            for nmf in names:
                                diffs.append(("flag:" + nmf, "flags %#x, CPU %#x (differs in %s)" % ((pv << a) & STATUS, nflags & STATUS, names)))
                            break
                except Exception:
                    pass
            if not diffs:
                try:
                    parts = m.mmap.read(SCRATCH, 4096)
                    a = 0
                    for p in parts:
                        if isinstance(p, (bytes, bytearray)):
                            for j, x in enumerate(p):
                                want = changes.get(a + j, scratch_byte(a + j))
                                if x != want:
                                    diffs.append(("mem", "scratch byte +%#x = %#x, CPU %#x" % (a + j, x, want)))
                                    break
                            a += len(p)
                        else:
                            a += p.size // 8
                        if diffs:
                            break
                except Exception:
                    pass
            for what, detail in (diffs if diffs and diffs[0][0].startswith("flag") else diffs[:1]):
                fails.append(Failure((tag, mn, what),
                                     "%s %s (%s %s) from state %s: %s" % (tag, h, mn, ",".join(str(o) for o in ins.operands), lab, detail),
                                     {"kind": "x86", "bytes": h, "state": lab, "mode": mode}, rank=len(b)).to_json())
    return fails, stats


def jobs(tier):
    info = {}
    if not os.path.exists(RUNNER):
        try:
            subprocess.run(["make", "-C", os.path.dirname(RUNNER), "-s"], check=True, capture_output=True)
        except Exception as ex:
            return [], {"error": "native runner missing and cannot be built: %r" % (ex,)}
    # probe: the runner must execute 'nop' correctly here
    try:
        r = run_native([(b"\x90", [0] * 4 + [SCRATCH + 0x800] + [0] * 11, 0x202)])
        if r[0] is None or r[0][0] != 0:
            return [], {"error": "native runner probe failed: %r" % (r,)}
    except Exception as ex:
        return [], {"error": "native runner probe raised %r" % (ex,)}
    C = candidates(tier)
    info["encodings"] = len(C)
    info["states"] = len(states(tier))
    CH = 40
    return [(tier, C[i:i + CH]) for i in range(0, len(C), CH)], info


def replay(case):
    fl, st = unit(("thorough", [case["bytes"]]))
    return [Failure.from_json(f) for f in fl if Failure.from_json(f).case.get("state") == case.get("state")]
