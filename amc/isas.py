"""Registry of ISA cpu modules and decode modes."""
import importlib

# name -> (cpu module, list of modes). A mode is a dict of amoco `internals`
# settings applied before decoding (ARM/Thumb, fetch endianness).
ISAS = [
    ("x86", "amoco.arch.x86.cpu_x86", [{}]),
    ("x64", "amoco.arch.x64.cpu_x64", [{}]),
    ("armv7", "amoco.arch.arm.cpu_armv7", [{"isetstate": 0}, {"isetstate": 1}]),
    ("armv8", "amoco.arch.arm.cpu_armv8", [{}]),
    ("rv32i", "amoco.arch.riscv.cpu_rv32i", [{}]),
    ("rv64i", "amoco.arch.riscv.cpu_rv64i", [{}]),
    ("mips", "amoco.arch.mips.cpu_r3000", [{}]),
    ("mipsle", "amoco.arch.mips.cpu_r3000LE", [{}]),
    ("sparc", "amoco.arch.sparc.cpu_v8", [{}]),
    ("sh2", "amoco.arch.superh.cpu_sh2", [{}]),
    ("tricore", "amoco.arch.tricore.cpu", [{}]),
    ("v850", "amoco.arch.v850.cpu_v850e2s", [{}]),
    ("w65c02", "amoco.arch.w65c02.cpu", [{}]),
    ("z80", "amoco.arch.z80.cpu_z80", [{}]),
    ("gb", "amoco.arch.z80.cpu_gb", [{}]),
    ("msp430", "amoco.arch.msp430.cpu", [{}]),
    ("pic18", "amoco.arch.pic.cpu_pic18f46k22", [{}]),
    ("ppc32", "amoco.arch.ppc32.cpu", [{}]),
    ("eBPF", "amoco.arch.eBPF.cpu", [{}]),
    ("bpf", "amoco.arch.eBPF.cpu_bpf", [{}]),
    ("wasm", "amoco.arch.wasm.cpu", [{}]),
    ("dwarf", "amoco.arch.dwarf.cpu", [{}]),
]
# modules that do not import on the pinned tree (reported by C17 as findings)
BROKEN = [("avr", "amoco.arch.avr.cpu"), ("e200", "amoco.arch.ppc32.cpu_e200"), ("sh4", "amoco.arch.superh.cpu_sh4")]

BY_NAME = {n: (m, modes) for n, m, modes in ISAS}


def load(name):
    mod, modes = BY_NAME[name]
    return importlib.import_module(mod)


def set_mode(cpu, mode):
    if mode:
        internals = getattr(cpu, "internals", None)
        if internals is None:
            raise ValueError("no internals")
        for k, v in mode.items():
            internals[k] = v


def flatten(tree, acc=None):
    acc = [] if acc is None else acc
    f, l = tree
    if f == 0:
        acc.extend(l)
    else:
        for k in l:
            flatten(l[k], acc)
    return acc


def specs_of(cpu, mode):
    """flattened spec list of the mode's tree"""
    set_mode(cpu, mode)
    d = cpu.disassemble
    return flatten(d.specs[d.iset()])


def mode_name(mode):
    return ",".join("%s=%s" % kv for kv in sorted(mode.items())) or "-"


def modes():
    out = []
    for n, m, ms in ISAS:
        for mode in ms:
            out.append((n, mode))
    return out
