"""Enumerator of well-sized expression test trees, their reference semantics
(plain int arithmetic) and their construction with the amoco operator API.

Tree language (JSON-able lists):
  ["r", name, w]            register
  ["c", v, w]               constant
  ["b", sym, L, R]          sign-agnostic binary operator (+ - * & | ^ << >> .>> >>> <<< == != <. >=.)
  ["s", sym, L, R]          sign-sensitive operator, .signed() called on both operands first
  ["n", sym, L, R]          sign-sensitive operator, .unsigned() called on both operands first
  ["u", sym, X]             unary (- ~)
  ["x", X, i, j]            slice X[i:j]
  ["k", [P0, P1, ...]]      composer (P0 = least significant)
  ["t", C, L, R]            tst(C, L, R)
  ["z", X, n] / ["g", X, n] zeroextend / signextend to n bits
"""
from amc.ref import bv
from amc.ref.bv import Unknown, mask

ARITH = ["+", "-", "*", "&", "|", "^"]
SHIFT = ["<<", ">>", ".>>"]
ROT = [">>>", "<<<"]
EQ = ["==", "!=", "<.", ">=."]
ORD = ["<", "<=", ">", ">="]
SDIV = ["/", "%"]
UN = ["-", "~"]


# ---------------------------------------------------------------- semantics
def width(t):
    k = t[0]
    if k in ("r", "c", "T"):
        return t[2]
    if k == "b":
        return 1 if t[1] in EQ else width(t[2])
    if k in ("s", "n"):
        if t[1] in ORD:
            return 1
        if t[1] == "**":
            return 2 * width(t[2])
        return width(t[2])
    if k == "u":
        return width(t[2])
    if k == "x":
        return t[3] - t[2]
    if k == "k":
        return sum(width(p) for p in t[1])
    if k == "t":
        return width(t[2])
    if k in ("z", "g"):
        return max(t[2], width(t[1]))
    raise ValueError(t)


def ref_eval(t, val):
    """unsigned value of tree t under val: dict regname -> int. May raise Unknown."""
    k = t[0]
    if k == "r":
        return val[t[1]] & mask(t[2])
    if k == "T":
        raise bv.Unknown("top")
    if k == "c":
        return t[1] & mask(t[2])
    if k == "b":
        l = ref_eval(t[2], val)
        r = ref_eval(t[3], val)
        return bv.binop(t[1], l, r, width(t[2]))[0]
    if k in ("s", "n"):
        l = ref_eval(t[2], val)
        r = ref_eval(t[3], val)
        sf = (k == "s")
        return bv.binop(t[1], l, r, width(t[2]), sf, sf)[0]
    if k == "u":
        return bv.unop(t[1], ref_eval(t[2], val), width(t[2]))
    if k == "x":
        return (ref_eval(t[1], val) >> t[2]) & mask(t[3] - t[2])
    if k == "k":
        v, pos = 0, 0
        for p in t[1]:
            v |= ref_eval(p, val) << pos
            pos += width(p)
        return v
    if k == "t":
        c = ref_eval(t[1], val)
        return ref_eval(t[2], val) if c == 1 else ref_eval(t[3], val)
    if k == "z":
        return ref_eval(t[1], val)
    if k == "g":
        w = width(t[1])
        return bv.sgn(ref_eval(t[1], val), w) & mask(max(t[2], w))
    raise ValueError(t)


def regs_of(t, acc=None):
    acc = acc if acc is not None else {}
    k = t[0]
    if k == "r":
        acc[t[1]] = t[2]
    elif k in ("c", "T"):
        pass
    elif k in ("b", "s", "n"):
        regs_of(t[2], acc); regs_of(t[3], acc)
    elif k == "u":
        regs_of(t[2], acc)
    elif k in ("x", "z", "g"):
        regs_of(t[1], acc)
    elif k == "k":
        for p in t[1]:
            regs_of(p, acc)
    elif k == "t":
        regs_of(t[1], acc); regs_of(t[2], acc); regs_of(t[3], acc)
    return acc


def children(t):
    k = t[0]
    if k in ("r", "c", "T"):
        return []
    if k in ("b", "s", "n"):
        return [t[2], t[3]]
    if k == "u":
        return [t[2]]
    if k in ("x", "z", "g"):
        return [t[1]]
    if k == "k":
        return list(t[1])
    if k == "t":
        return [t[1], t[2], t[3]]
    raise ValueError(t)


def nops(t):
    if t[0] == "m":
        return 1
    return (0 if t[0] in ("r", "c", "T") else 1) + sum(nops(c) for c in children(t))


def proper_subtrees(t):
    out = []
    if t[0] == "m":
        return out
    for c in children(t):
        if c[0] not in ("r", "c", "T"):
            out.append(c)
        out.extend(proper_subtrees(c))
    return out


# ---------------------------------------------------------------- construction
def build(t):
    """construct with the amoco operator API, fresh leaf objects per occurrence"""
    from amoco.cas import expressions as E
    k = t[0]
    if k == "r":
        return E.reg(t[1], t[2])
    if k == "c":
        return E.cst(t[1], t[2])
    if k == "T":
        return E.top(t[2])
    if k == "b":
        l, r = build(t[2]), build(t[3])
        s = t[1]
        if s == "+": return l + r
        if s == "-": return l - r
        if s == "*": return l * r
        if s == "&": return l & r
        if s == "|": return l | r
        if s == "^": return l ^ r
        if s == "<<": return l << r
        if s == ">>": return l >> r
        if s == ".>>": return l // r
        if s == ">>>": return E.ror(l, r)
        if s == "<<<": return E.rol(l, r)
        if s == "==": return l == r
        if s == "!=": return l != r
        if s == "<.": return E.ltu(l, r)
        if s == ">=.": return E.geu(l, r)
        raise ValueError(s)
    if k in ("s", "n"):
        l, r = build_sf(t[2], k == "s"), build_sf(t[3], k == "s")
        s = t[1]
        if s == "<": return l < r
        if s == "<=": return l <= r
        if s == ">": return l > r
        if s == ">=": return l >= r
        if s == "**": return l ** r
        if s == "/": return l / r
        if s == "%": return l % r
        raise ValueError(s)
    if k == "u":
        x = build(t[2])
        return (-x) if t[1] == "-" else (~x)
    if k == "x":
        return build(t[1])[t[2]:t[3]]
    if k == "k":
        return E.composer([build(p) for p in t[1]])
    if k == "t":
        return E.tst(build(t[1]), build(t[2]), build(t[3]))
    if k == "z":
        return build(t[1]).zeroextend(t[2])
    if k == "g":
        return build(t[1]).signextend(t[2])
    raise ValueError(t)


def build_raw(t):
    """construct with the node classes directly (no simplification at construction):
    explores the rewrite paths that start from an unsimplified node"""
    from amoco.cas import expressions as E
    k = t[0]
    if k in ("r", "c", "T"):
        return build(t)
    if k == "b":
        return E.op(t[1], build_raw(t[2]), build_raw(t[3]))
    if k in ("s", "n"):
        # operands carry their declared signedness on every node (as in build);
        # only the signed/unsigned operator node itself is left unsimplified
        l, r = build_sf(t[2], k == "s"), build_sf(t[3], k == "s")
        return E.op(t[1], l, r)
    if k == "u":
        return E.uop(t[1], build_raw(t[2]))
    if k == "x":
        x = build_raw(t[1])
        if type(x).__name__ in ("cst", "comp", "mem", "top"):
            return x[t[2]:t[3]]     # (a slc node directly over these is never created by amoco itself)
        return E.slc(x, t[2], t[3] - t[2])
    if k == "k":
        return E.composer([build_raw(p) for p in t[1]])
    if k == "t":
        return E.tst(build_raw(t[1]), build_raw(t[2]), build_raw(t[3]))
    if k == "z":
        return build_raw(t[1]).zeroextend(t[2])
    if k == "g":
        return build_raw(t[1]).signextend(t[2])
    raise ValueError(t)


def signable(t):
    """operand shapes on which signedness can be declared unambiguously: a leaf,
    or + - * & | ^ / unary - ~ over such (the flag is then set on every leaf and
    every node of the operand)"""
    k = t[0]
    if k in ("r", "c"):
        return True
    if k == "b" and t[1] in ARITH:
        return signable(t[2]) and signable(t[3])
    if k == "u":
        return signable(t[2])
    return False


def build_sf(t, sf):
    from amoco.cas import expressions as E
    k = t[0]
    if k in ("r", "c"):
        x = build(t)
    elif k == "b":
        l, r = build_sf(t[2], sf), build_sf(t[3], sf)
        x = {"+": lambda: l + r, "-": lambda: l - r, "*": lambda: l * r,
             "&": lambda: l & r, "|": lambda: l | r, "^": lambda: l ^ r}[t[1]]()
    elif k == "u":
        r = build_sf(t[2], sf)
        x = (-r) if t[1] == "-" else (~r)
    else:
        raise ValueError("not signable: %r" % (t,))
    return x.signed() if sf else x.unsigned()


# ---------------------------------------------------------------- shapes
def cclass(v, w):
    v &= mask(w)
    if v == 0: return "0"
    if v == 1: return "1"
    if v == mask(w): return "-1"
    if v == 1 << (w - 1): return "msb"
    if v == w: return "=w"
    if v > w: return ">w"
    return "c"


def shape(t):
    k = t[0]
    if k == "T":
        return "T"
    if k == "r":
        return "r"
    if k == "c":
        return cclass(t[1], t[2])
    if k in ("b", "s", "n"):
        same = "=" if (t[2] == t[3] and t[2][0] == "r") else ""
        return "(%s %s%s%s %s)" % (shape(t[2]), {"b": "", "s": "s", "n": "u"}[k], t[1], same, shape(t[3]))
    if k == "u":
        return "(%s%s)" % (t[1], shape(t[2]))
    if k == "x":
        w = width(t[1])
        pos = "lo" if t[2] == 0 else ("hi" if t[3] == w else "mid")
        return "%s[%s]" % (shape(t[1]), pos)
    if k == "k":
        return "{%s}" % ",".join(shape(p) for p in t[1])
    if k == "t":
        return "(%s?%s:%s)" % (shape(t[1]), shape(t[2]), shape(t[3]))
    if k == "z":
        return "zx(%s)" % shape(t[1])
    if k == "g":
        return "sx(%s)" % shape(t[1])
    raise ValueError(t)


# ---------------------------------------------------------------- enumeration
def const_menu(w, full):
    if w <= 3 and full:
        return list(range(1 << w))
    m = mask(w)
    if full:
        vs = [0, 1, 2, w - 1, w, w + 1, 1 << (w - 1), (1 << (w - 1)) - 1, m, m - 1]
    else:
        vs = [0, 1, w, 1 << (w - 1), m]
    out = []
    for v in vs:
        v &= m
        if v not in out:
            out.append(v)
    return out


class Enum(object):
    """trees by exact operator count; W = base width; options select operator families"""
    def __init__(self, W, full_consts_n0=True, ops=None, widths=None, two_regs=True, top_leaf=False):
        self.W = W
        self.top_leaf = top_leaf
        self.ops = ops or set(ARITH + SHIFT + ROT + EQ + ORD + ["**"] + SDIV + UN + ["x", "k", "t", "z", "g"])
        self.memo = {}
        self.widths = widths or sorted(set([1, W, W + 1, 2 * W] + list(range(1, W))))
        self.two_regs = two_regs

    def leaves(self, w, full):
        L = []
        if w == self.W:
            L.append(["r", "a", w])
            if self.two_regs:
                L.append(["r", "b", w])
        else:
            L.append(["r", "a%d" % w, w])
        for v in const_menu(w, full):
            L.append(["c", v, w])
        if self.top_leaf:
            L.append(["T", None, w])
        return L

    def trees(self, n, w, full=True):
        key = (n, w, full)
        if key in self.memo:
            return self.memo[key]
        if n == 0:
            res = self.leaves(w, full)
            self.memo[key] = res
            return res
        res = []
        W = self.W
        ops = self.ops

        def pairs(wl, wr, m):
            for i in range(m + 1):
                for l in self.trees(i, wl, full):
                    for r in self.trees(m - i, wr, full):
                        yield l, r

        # binary sign-agnostic (w,w)->w
        for s in ARITH + SHIFT + ROT:
            if s in ops and w == W:
                for l, r in pairs(w, w, n - 1):
                    res.append(["b", s, l, r])
        if w == 1:
            for s in EQ:
                if s in ops:
                    for l, r in pairs(W, W, n - 1):
                        res.append(["b", s, l, r])
            for s in ORD:
                if s in ops:
                    for l, r in pairs(W, W, n - 1):
                        if not (signable(l) and signable(r)):
                            continue
                        res.append(["s", s, l, r])
                        res.append(["n", s, l, r])
        if w == 2 * W and "**" in ops:
            for l, r in pairs(W, W, n - 1):
                if not (signable(l) and signable(r)):
                    continue
                res.append(["s", "**", l, r])
                res.append(["n", "**", l, r])
        if w == W:
            for s in SDIV:
                if s in ops:
                    for l, r in pairs(W, W, n - 1):
                        if r[0] == "c" and r[1] == 0:
                            continue
                        if not (signable(l) and signable(r)):
                            continue
                        res.append(["s", s, l, r])
                        res.append(["n", s, l, r])
            for s in UN:
                if s in ops:
                    for x in self.trees(n - 1, W, full):
                        res.append(["u", s, x])
        # slices of width w from sources of width W, W+1 or 2W (n-1 operators)
        if "x" in ops:
            for sw in (W, 2 * W):
                if sw <= w:
                    continue
                for x in self.trees(n - 1, sw, full):
                    if n - 1 == 0 and x[0] == "c" and not full:
                        continue
                    for i in range(0, sw - w + 1):
                        res.append(["x", x, i, i + w])
        # composition of two parts
        if "k" in ops and w in (W, W + 1, 2 * W):
            for wl in sorted(set([1, w - 1, w // 2, W]) & set(range(1, w))):
                wr = w - wl
                if wl not in self.widths or wr not in self.widths:
                    continue
                for l, r in pairs(wl, wr, n - 1):
                    res.append(["k", [l, r]])
        # conditional
        if "t" in ops and w == W:
            for i in range(n):
                for c in self.trees(i, 1, full):
                    for j in range(n - i):
                        for l in self.trees(j, w, full):
                            for r in self.trees(n - 1 - i - j, w, full):
                                res.append(["t", c, l, r])
        # extensions
        if w in (W + 1, 2 * W):
            for x in self.trees(n - 1, W, full):
                if "z" in ops:
                    res.append(["z", x, w])
                if "g" in ops:
                    res.append(["g", x, w])
        self.memo[key] = res
        return res
