"""Spec-driven instruction words: for every ispec of an ISA mode, byte strings
that match its fixed bits and walk its fields one at a time (all values of
fields <= 5 bits, boundary values of wider fields, don't-care bits), with a
menu of tails for variable-length specs and an x86 ModRM/SIB/prefix menu."""
from amc.ref import fmtlang

X86_PREFIXES_Q = [b"", b"\x66", b"\xf3", b"\x48"]
X86_PREFIXES_T = [b"", b"\x66", b"\x67", b"\x66\x67", b"\xf2", b"\xf3", b"\xf0", b"\x2e", b"\x48", b"\x4f", b"\x66\x48", b"\x41"]
INC = bytes(range(1, 17))


def field_values(n, full):
    if n <= 5:
        return list(range(1 << n))
    m = (1 << n) - 1
    vs = [0, 1, m, 1 << (n - 1), (1 << (n - 1)) - 1, m - 1]
    if full:
        vs += [1 << i for i in range(1, n - 1)]
        vs += [0x55555555555555555555 & m, 0xAAAAAAAAAAAAAAAAAAAA & m]
    out = []
    for v in vs:
        if v not in out:
            out.append(v)
    return out


def words(fs, full):
    """list of ints over fs.nbits matching the fixed bits"""
    nb = fs.nbits
    allm = (1 << nb) - 1
    free = allm & ~fs.mask
    base = fs.fix
    out = [base, base | free]
    seen = set(out)

    def add(w):
        w = (w & free) | base
        if w not in seen:
            seen.add(w)
            out.append(w)

    for f in fs.fields:
        hi = f.hi if f.hi is not None else nb
        n = hi - f.lo
        if n <= 0:
            continue
        fm = ((1 << n) - 1) << f.lo
        vals = field_values(n, full)
        for v in vals:
            add(v << f.lo)                                   # others 0
        for v in (vals if full else [vals[0], vals[-1], vals[len(vals) // 2]]):
            add((free & ~fm) | (v << f.lo))                  # others 1
    for b in fs.dontcare:
        add(1 << b)
    return out


def modrm_fields(fs):
    names = {f.name: f for f in fs.fields}
    if "Mod" in names and "RM" in names:
        return names["Mod"], names["RM"], names.get("REG")
    return None


def tails_generic(maxlen, full):
    T = [b"", b"\x00" * 16, b"\xff" * 16, b"\x80" + b"\x00" * 15, INC]
    if full:
        T += [b"\x00", b"\x00\x00", b"\xff", b"\x7f\xff\xff\xff" + b"\x00" * 12, b"\x81\x01" + b"\x00" * 14]
    return T


def cases_for_spec(isa, spec, endian, maxlen, tier):
    """yield byte strings for one amoco ispec object"""
    full = tier == "thorough"
    fs = fmtlang.parse(spec.format)
    nb = fs.nbits // 8
    order = "little" if endian == 1 else "big"
    W = words(fs, full)
    x86 = isa in ("x86", "x64")
    if not fs.variable:
        pad = b"\x00" * max(0, maxlen - nb)
        for w in W:
            b = w.to_bytes(nb, order)
            yield b
        # a few with trailing bytes and truncations
        b0 = W[0].to_bytes(nb, order)
        yield b0 + b"\xff" * 4
        yield b0 + pad
        for k in range(nb):
            yield b0[:k]
        if x86:
            for p in (X86_PREFIXES_T if full else X86_PREFIXES_Q):
                if p:
                    yield p + b0 + b"\x00" * 8
        return
    # variable length: fixed part + tails
    if x86:
        prefixes = X86_PREFIXES_T if full else X86_PREFIXES_Q
        T = [b"\x00" * 14, b"\xff" * 14] + ([INC, b"\x80" + b"\x00" * 13] if full else [])
        for w in W:
            hb = w.to_bytes(nb, "little")
            for t in T:
                yield hb + t
        mr = modrm_fields(fs)
        if mr:
            Mod, RM, REG = mr
            regs = [0, 7] if (full and REG is not None) else [0]
            sibs = [0x00, 0x24, 0x25, 0x65, 0xFF] if full else [0x00, 0x25, 0xE5]
            for mod in range(4):
                for rm in range(8):
                    for rg in regs:
                        w = fs.fix | (mod << Mod.lo) | (rm << RM.lo) | ((rg << REG.lo) if REG is not None else 0)
                        hb = w.to_bytes(nb, "little")
                        for sib in sibs:
                            yield hb + bytes([sib]) + INC[:13]
                        yield hb + b"\xff" * 13
        hb = W[0].to_bytes(nb, "little")
        for p in prefixes:
            if p:
                yield p + hb + b"\x00" * 12
                if full:
                    yield p + hb + INC[:12]
        for k in range(0, 7):
            yield hb + b"\x00" * k
        for k in range(nb):
            yield hb[:k]
        return
    T = tails_generic(maxlen, full)
    for w in W:
        hb = w.to_bytes(nb, "little")
        for t in T:
            yield hb + t
    hb = W[0].to_bytes(nb, "little")
    for k in range(1, 6):
        yield hb + b"\x00" * k
        yield hb + b"\xff" * k
    for k in range(nb):
        yield hb[:k]


def prefixed_modrm_cases(isa, spec, tier):
    """x86/x64: prefix byte(s) + the spec's fixed bits with a ModRM that pulls a SIB byte and a displacement
    (mod=01 rm=100 / mod=10 rm=100 / mod=00 rm=101 / mod=11), so that a setup function consumes addressing
    bytes on an instruction object already shared with a pending prefix"""
    if isa not in ("x86", "x64"):
        return
    fs = fmtlang.parse(spec.format)
    if not fs.variable:
        return
    mr = modrm_fields(fs)
    if not mr:
        return
    Mod, RM, REG = mr
    nb = fs.nbits // 8
    full = tier == "thorough"
    prefixes = [p for p in (X86_PREFIXES_T if full else X86_PREFIXES_Q + [b"\x41", b"\x66\x48"]) if p]
    forms = [(1, 4), (2, 4), (0, 5), (3, 0)] if full else [(1, 4), (0, 5)]
    for p in prefixes:
        for (mod, rm) in forms:
            w = fs.fix | (mod << Mod.lo) | (rm << RM.lo)
            yield p + w.to_bytes(nb, "little") + b"\x24" + INC[:12]
    # address-size override: the other ModRM table (16-bit forms in 32-bit mode, 32-bit forms in 64-bit mode), whose
    # displacement-only and SIB classes sit at other r/m values (mod=00 r/m=110 is [disp16], r/m=100/101 are [si]/[di])
    for p in ([b"\x67", b"\x66\x67"] if full else [b"\x67"]):
        for mod in (0, 1, 2):
            for rm in (range(8) if full else (0, 4, 5, 6)):
                w = fs.fix | (mod << Mod.lo) | (rm << RM.lo)
                yield p + w.to_bytes(nb, "little") + b"\x25" + INC[:12]


def adrsize_cases(isa, spec, tier):
    """x86/x64: 67 (and 66 67) before every variable-length spec without ModRM (moffs forms, string and jump forms): the
    number of bytes consumed depends on the address size"""
    if isa not in ("x86", "x64"):
        return
    fs = fmtlang.parse(spec.format)
    if not fs.variable or modrm_fields(fs):
        return
    nb = fs.nbits // 8
    hb = fs.fix.to_bytes(nb, "little")
    for p in ([b"\x67", b"\x66\x67", b"\x67\x48"] if tier == "thorough" else [b"\x67"]):
        yield p + hb + INC[:12]
        yield p + hb + b"\xff" * 12


def sweep16():
    """all 65536 two-byte prefixes (callers add a tail)"""
    for i in range(65536):
        yield bytes([i >> 8, i & 0xFF])
