"""C02 -- the symbolic block map agrees with step-by-step concrete execution.
Differential, on the real code: route A builds one symbolic map for the whole
sequence on an empty mapper and composes it with the concrete state; route B
executes the instructions one at a time on (a copy of) the concrete state."""
import json, itertools
from amc import core, isas
from amc.core import Failure, Report, exc_sig
from amc.gen import specwords

CONFIGS_Q = [(True, True), (False, True)]
CONFIGS_T = [(True, True), (False, True), (True, False), (False, False)]


def universe(cpu):
    """plain register objects of the cpu module (name -> reg)"""
    from amoco.cas.expressions import reg, ext
    out = {}

    def add(v):
        if type(v) is reg and v.size and v.size > 0:
            out.setdefault(v.ref, v)
    for v in getattr(cpu, "registers", []) or []:
        add(v)
    for k, v in vars(cpu).items():
        if isinstance(v, (list, tuple)):
            for x in v:
                add(x)
        elif isinstance(v, dict):
            for x in v.values():
                add(x)
        else:
            add(v)
    return out


def state_values(regs, pcname, variant):
    """deterministic concrete values: registers point into the mapped window, spaced 0x200"""
    vals = {}
    names = sorted(regs)
    small = max(r.size for r in regs.values()) <= 16
    base = 0x1000 if small else 0x10000
    for k, n in enumerate(names):
        r = regs[n]
        m = (1 << r.size) - 1
        if variant == 0:
            v = base + 0x200 + 0x200 * (k % 24) + 0x10
        elif variant == 1:
            v = base + 0x200 + 0x200 * ((k * 7) % 24) + 0x87
        elif variant == 2:
            v = [0, 1, m, 1 << (r.size - 1), (1 << (r.size - 1)) - 1, 0x55555555555555555555 & m][k % 6]
        else:
            v = base + 0x200 + 0x200 * (k % 3) + 4 * (k % 5)        # pointers close to each other
        if r.size <= 8:
            v = [0x00, 0x81, 0x7F, 0xFF][(k + variant) % 4]
        if "flag" in n.lower() or r.etype & 0x20:
            v = 0 if variant in (0, 3) else m
        vals[n] = v & m
    if pcname in vals:
        vals[pcname] = (base + 0x4000 - 0x100) & ((1 << regs[pcname].size) - 1)
    return vals, base


def membyte(a):
    return (a * 13 + 7) & 0xFF


WIN = 0x4000


def concrete_state(regs, vals, base):
    from amoco.cas.mapper import mapper
    from amoco.cas.expressions import cst
    C = mapper()
    for n, r in regs.items():
        C[r] = cst(vals[n], r.size)
    C.mmap.write(base, bytes(membyte(a) for a in range(base, base + WIN)))
    return C


def flat_memory(m, base):
    """per-byte constants of the window (None where not a constant)"""
    out = []
    try:
        parts = m.mmap.read(base, WIN)
    except Exception:
        return None
    for p in parts:
        if isinstance(p, (bytes, bytearray)):
            out.extend(p)
        else:
            n = p.size // 8
            if getattr(p, "_is_cst", False):
                v = p.v
                out.extend([(v >> (8 * i)) & 0xFF for i in range(n)])   # cst stored little-endian? never stored (converted to bytes)
            else:
                out.extend([None] * n)
    return out


def const_bits(v):
    """list of (lo, hi, value) constant pieces of an expression value"""
    k = type(v).__name__
    if k == "cst":
        return [(0, v.size, v.v)]
    if k == "comp":
        out = []
        for (a, b), p in v.parts.items():
            if type(p).__name__ == "cst":
                out.append((a, b, p.v))
        return out
    return []


PROGRAM_TIME_LIMIT = 30      # seconds per (program, state, configuration); exceeded runs are counted, not judged


def decode_candidates(cpu, isa, mode, per_mn):
    """instructions that decode and execute on an empty mapper: per (spec, mnemonic) up to
    `per_mn` encodings spread evenly over the spec-driven enumeration (first and last included)"""
    from amoco.cas.mapper import mapper
    d = cpu.disassemble
    S = isas.flatten(d.specs[d.iset()])
    e = d.endian()
    out = []
    seenb = set()
    CAP = 48
    for s in S:
        if s.pfx is True:
            continue
        pool = {}
        for b in specwords.cases_for_spec(isa, s, e, d.maxlen, "quick"):
            if not b or b in seenb:
                continue
            setattr(d, "_disassembler__i", None)
            isas.set_mode(cpu, mode)
            try:
                i = d(b)
            except Exception:
                setattr(d, "_disassembler__i", None)
                continue
            if i is None or i.spec.pfx is True:
                continue
            bb = bytes(i.bytes)
            if bb in seenb:
                continue
            key = str(i.mnemonic)
            if len(pool.get(key, ())) >= CAP:
                continue
            try:
                m = mapper()
                i(m)
            except Exception:
                continue
            if len(m) == 0:
                continue   # no semantics (logged 'not implemented'): nothing to compare
            seenb.add(bb)
            locs = [l for l, v in m]
            fp = tuple(sorted(set(
                ("mem" if l._is_ptr else ("pc" if (l.etype & 0x10) else ("flag" if (l.etype & 0x20) else "reg"))) for l in locs)))
            try:
                reads_mem = any("M" in str(v) and "(" in str(v) for l, v in m)
            except RecursionError:
                reads_mem = True    # a cyclic value (cannot be printed): keep the candidate, the checks will meet it
            pool.setdefault(key, []).append((bb.hex(), key, fp + (("rdmem",) if reads_mem else ())))
        for key in sorted(pool):
            L = pool[key]
            if len(L) <= per_mn:
                out.extend(L)
            else:
                idx = sorted(set(round(k * (len(L) - 1) / (per_mn - 1)) for k in range(per_mn))) if per_mn > 1 else [0]
                out.extend(L[k] for k in idx)
    return out


def run_program(cpu, regs, pcname, hexes, variant, noalias, memtrace, mode):
    """returns None (skipped) or list of (locclass, detail)"""
    from amoco.config import conf
    from amoco.cas.mapper import mapper
    from amoco.cas.expressions import cst
    conf.Cas.noaliasing = noalias
    conf.Cas.memtrace = memtrace
    d = cpu.disassemble
    vals, base = state_values(regs, pcname, variant)
    try:
        instrs = []
        addr = vals.get(pcname, base)
        psize = regs[pcname].size if pcname in regs else 32
        for h in hexes:
            setattr(d, "_disassembler__i", None)
            isas.set_mode(cpu, mode)
            i = d(bytes.fromhex(h))
            if i is None:
                return None
            i.address = cst(addr, psize)
            addr += i.length
            instrs.append(i)
        try:
            M = mapper(instrs)
        except Exception:
            return None
        C = concrete_state(regs, vals, base)
        S = concrete_state(regs, vals, base)
        try:
            for i in instrs:
                i(S)
        except Exception:
            return None        # the concrete route itself raises: C17's business
        if noalias and pointers_overlap(M, C):
            return None        # state excluded by the no-aliasing assumption
        try:
            R = C >> M
        except Exception as ex:
            return [("compose-exc:%s@%s" % exc_sig(ex), "C >> map raised %r" % (ex,))]
        out = []
        for n, r in regs.items():
            try:
                sv = S[r]
                rv = R[r]
            except Exception:
                continue
            if type(sv).__name__ != "cst":
                continue
            for (a, b, v) in const_bits(rv):
                want = (sv.v >> a) & ((1 << (b - a)) - 1)
                if v != want:
                    cls = "pc" if (r.etype & 0x10) else ("flag" if (r.etype & 0x20) else "reg")
                    out.append((cls, "%s[%d:%d] = %#x on the symbolic route, %#x step by step (whole: %s vs %s)" % (n, a, b, v, want, rv, sv)))
                    break
        ms, mr = flat_memory(S, base), flat_memory(R, base)
        if ms is not None and mr is not None and len(ms) == len(mr):
            for k, (x, y) in enumerate(zip(ms, mr)):
                if x is not None and y is not None and x != y:
                    out.append(("mem", "memory byte %#x = %#x on the symbolic route, %#x step by step" % (base + k, y, x)))
                    break
        return out
    finally:
        conf.Cas.noaliasing = True
        conf.Cas.memtrace = True


def pointers_overlap(M, C):
    """under the no-aliasing assumption: do two syntactically distinct symbolic pointers
    of the map (written zones, memory reads) overlap in the concrete state C?"""
    from amoco.cas.expressions import locations_of
    acc = []      # (zone key string, concrete start, length)

    def add(base, disp, n):
        if base._is_cst:
            key, a = None, base.v + disp
        else:
            try:
                v = C(base)
            except Exception:
                return
            if type(v).__name__ != "cst":
                return
            key, a = str(base), v.v + disp
        acc.append((key, a, n))
    try:
        for key, z in M.mmap._zones.items():
            if key is None:
                continue
            for o in z._map:
                add(key, o.vaddr, len(o.data))
        for l, v in M:
            for x in locations_of(v):
                if x._is_mem and isinstance(x.a.disp, int):
                    add(x.a.base, x.a.disp, x.size // 8)
            if l._is_ptr and isinstance(l.disp, int):
                add(l.base, l.disp, max(1, v.size // 8))
    except Exception:
        return False
    for i in range(len(acc)):
        for j in range(i + 1, len(acc)):
            (k1, a1, n1), (k2, a2, n2) = acc[i], acc[j]
            if k1 != k2 and a1 < a2 + n2 and a2 < a1 + n1:
                return True
    return False


def mode_unit(args):
    isa, mode, tier, shard, nshards = args
    cpu = isas.load(isa)
    isas.set_mode(cpu, mode)
    regs = universe(cpu)
    try:
        pcname = cpu.PC().ref
    except Exception:
        pcname = None
    mname = isas.mode_name(mode)
    full = tier == "thorough"
    cands = decode_candidates(cpu, isa, mode, 6 if full else 3)
    # alphabet for sequences: k per footprint class
    byclass = {}
    for h, mn, fp in cands:
        byclass.setdefault(fp, [])
        if len(byclass[fp]) < (3 if full else 2) and mn not in [x[1] for x in byclass[fp]]:
            byclass[fp].append((h, mn))
    alpha = [x for fp in sorted(byclass) for x in byclass[fp]]
    progs = [[c[0]] for c in cands]
    progs += [[a[0], b[0]] for a in alpha for b in alpha]
    if full:
        a3 = alpha[:14]
        progs += [[a[0], b[0], c[0]] for a in a3 for b in a3 for c in a3]
    mn_of = dict((h, mn) for h, mn, fp in cands)
    configs = CONFIGS_T if full else CONFIGS_Q
    variants = (0, 1, 2, 3) if full else (0, 1)
    stats = {"programs": 0, "runs": 0, "skipped": 0, "alphabet": len(alpha), "candidates": len(cands), "classes": len(byclass)}
    fails = []
    failing1 = set()
    for k, p in enumerate(progs):
        if k % nshards != shard:
            continue
        stats["programs"] += 1
        for (na, mt) in configs:
            for v in variants:
                try:
                    with core.time_limit(PROGRAM_TIME_LIMIT):
                        r = run_program(cpu, regs, pcname, p, v, na, mt, mode)
                except core.TimeLimit:
                    stats["timeouts"] = stats.get("timeouts", 0) + 1
                    r = None
                stats["runs"] += 1
                if r is None:
                    stats["skipped"] += 1
                    continue
                for cls, detail in r:
                    mns = tuple(mn_of.get(h, "?") for h in p)
                    cfg = "%s/%s" % ("noalias" if na else "alias", "trace" if mt else "notrace")
                    sig = (isa, mname, "+".join(mns), cls.split(":")[0] if cls.startswith("compose") else cls)
                    if na and not mt and cls == "mem":
                        # one root cause: with the no-aliasing assumption and memory tracing off a map does not record
                        # its stores in the ordered write list, so composing it with a state replays none of them
                        sig = (isa, mname, "stores-not-replayed-without-memtrace", cls)
                    fails.append(Failure(sig, "%s %s program %s [%s] state %d config %s: %s" % (isa, mname, p, " ; ".join(mns), v, cfg, detail),
                                         {"isa": isa, "mode": mode, "prog": p, "state": v, "noaliasing": na, "memtrace": mt},
                                         rank=len(p)).to_json())
    return {"fails": fails, "stats": stats, "isa": isa, "mode": mname, "alphabet": [a[1] for a in alpha]}


def run(tier, seed):
    rep = Report("C02", "model_checking")
    jobs = []
    NS = {"x86": 12, "x64": 12, "armv7": 6, "armv8": 4, "tricore": 4, "ppc32": 3}
    for isa, mode in isas.modes():
        ns = NS.get(isa, 2) * (3 if tier == "thorough" else 1)
        for k in range(ns):
            jobs.append((isa, mode, tier, k, ns))
    jobs = core.rotate(jobs, seed)
    res = core.pmap(mode_unit, jobs, chunksize=1)
    tot = {"programs": 0, "runs": 0, "skipped": 0, "timeouts": 0}
    per = {}
    for j, r in zip(jobs, res):
        for k in tot:
            tot[k] += r["stats"].get(k, 0)
        per[(r["isa"], r["mode"])] = {"candidates": r["stats"]["candidates"], "alphabet": r["alphabet"], "classes": r["stats"]["classes"]}
        for f in r["fails"]:
            rep.add(Failure.from_json(f))
    # shadowing by failing single instructions
    single = set()
    for f in rep.failures:
        if len(f.case["prog"]) == 1:
            single.add((f.case["isa"], json.dumps(f.case["mode"], sort_keys=True), f.case["prog"][0]))
    kept = []
    for f in rep.failures:
        p = f.case["prog"]
        if len(p) > 1 and any((f.case["isa"], json.dumps(f.case["mode"], sort_keys=True), h) in single for h in p):
            continue
        kept.append(f)
    shadowed = len(rep.failures) - len(kept)
    rep.failures = sorted(kept, key=lambda f: (f.rank, f.sig, json.dumps(f.case, sort_keys=True)))
    rep.coverage.update({
        "states": tot["programs"], "transitions": tot["runs"], "traces_validated_against_impl": tot["runs"] - tot["skipped"],
        "evaluations": tot["runs"], "distinct_nontrivial": tot["programs"],
        "rule": "per ISA mode: all length-1 programs over the spec-driven instructions that execute (<=3/6 encodings per mnemonic) and all "
                "length-2 (thorough: length-3) programs over an automatically derived alphabet (2-3 instructions per footprint class: "
                "reg/flag/pc/mem written, memory read); every program x start state (registers spaced inside a mapped 16 KiB window, "
                "flags 0/1, boundary values) x (noaliasing, memtrace) setting: map built once on an empty mapper and composed with the "
                "state versus instruction-by-instruction execution; every constant piece of every register and every constant "
                "memory byte must agree; non-trivial = distinct programs",
        "per_mode": [{"isa": a, "mode": b, **v} for (a, b), v in sorted(per.items())],
        "skipped_runs_route_raises": tot["skipped"], "shadowed": shadowed,
        "runs_over_time_limit_not_judged": tot["timeouts"], "time_limit_s": PROGRAM_TIME_LIMIT,
        "samples": [{"isa": jobs[0][0], "programs": "length 1 and 2 over the derived alphabet"}],
        "bound": "sequence length <= %d (the property states 1..8)" % (3 if tier == "thorough" else 2),
    })
    rep.assumptions = ["programs on which either route raises are skipped (decided by C17)",
                       "symbolic or top results on the symbolic route are accepted"]
    if tot["timeouts"]:
        # a cap was hit: the runs over the time limit are reported, everything else was covered
        rep.exhaustive = False
        rep.assumptions.append("%d runs exceeded %d s and were not judged" % (tot["timeouts"], PROGRAM_TIME_LIMIT))
    return rep


def replay(case):
    cpu = isas.load(case["isa"])
    isas.set_mode(cpu, case["mode"])
    regs = universe(cpu)
    try:
        pcname = cpu.PC().ref
    except Exception:
        pcname = None
    r = run_program(cpu, regs, pcname, case["prog"], case["state"], case["noaliasing"], case["memtrace"], case["mode"])
    return [Failure((case["isa"], cls), detail, case) for cls, detail in (r or [])]
