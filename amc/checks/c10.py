"""C10 -- symbolic results do not depend on analysis history.
The only channel is process-global mutable state (module-level register
objects, internals, class attributes).  That state is treated as the state of a
transition system and explored: transitions = decode + symbolic execution of
instructions / evaluation of maps; in every reachable global state a fixed set
of probe blocks must evaluate to the same constants, both rebuilt and as the
map objects built in the initial state."""
import json
import multiprocessing as mp
from amc import core, isas
from amc.core import Failure, Report, exc_sig
from amc.checks import c02
from amc.gen import specwords


def global_objects(cpu):
    """expression objects reachable from the cpu module namespace (regs, slices, lists, dicts)"""
    from amoco.cas.expressions import exp
    out = {}

    def add(name, v):
        if isinstance(v, exp) and type(v).__name__ in ("reg", "slc", "ext", "cst", "sym", "lab"):
            out.setdefault(id(v), (name, v))
            x = getattr(v, "x", None)
            if isinstance(x, exp):
                add(name + ".x", x)
    for k, v in sorted(vars(cpu).items()):
        if isinstance(v, (list, tuple)):
            for i, x in enumerate(v):
                add("%s[%d]" % (k, i), x)
        elif isinstance(v, dict) and k != "uarch":
            for kk, x in v.items():
                add("%s[%s]" % (k, kk), x)
        else:
            add(k, v)
    return [out[i] for i in sorted(out, key=lambda i: out[i][0])]


def snapshot(cpu, objs):
    from amoco.cas.expressions import regtype
    S = []
    for name, o in objs:
        sub = getattr(o, "_subrefs", None)
        S.append((name, o.size, bool(o.sf), o.etype, tuple(sorted((str(k), str(v)) for k, v in sub.items())) if isinstance(sub, dict) else None))
    internals = getattr(cpu, "internals", None)
    return (tuple(S), tuple(sorted((str(k), str(v)) for k, v in internals.items())) if isinstance(internals, dict) else None,
            regtype.cur, getattr(cpu.disassemble, "_disassembler__i", None) is None)


def restore(cpu, objs, snap):
    from amoco.cas.expressions import regtype
    for (name, o), (n2, size, sf, etype, sub) in zip(objs, snap[0]):
        if bool(o.sf) != sf:
            o.sf = sf
        if o.etype != etype:
            try:
                o.etype = etype
            except Exception:
                pass
    internals = getattr(cpu, "internals", None)
    if isinstance(internals, dict) and snap[1] is not None:
        cur = dict((str(k), k) for k in internals)
        for k, v in snap[1]:
            if k in cur and str(internals[cur[k]]) != v:
                try:
                    internals[cur[k]] = type(internals[cur[k]])(v)
                except Exception:
                    pass
    regtype.cur = snap[2]
    setattr(cpu.disassemble, "_disassembler__i", None)


def diff(s0, s1):
    out = []
    for a, b in zip(s0[0], s1[0]):
        if a != b:
            what = [f for f, x, y in zip(("size", "sf", "etype", "_subrefs"), a[1:], b[1:]) if x != y]
            out.append("%s.%s" % (a[0], "+".join(what)))
    if s0[1] != s1[1]:
        out.append("internals")
    if s0[2] != s1[2]:
        out.append("regtype.cur")
    if s0[3] != s1[3]:
        out.append("pending-prefix")
    return out


def decode(cpu, mode, h):
    d = cpu.disassemble
    isas.set_mode(cpu, mode)
    try:
        return d(bytes.fromhex(h))
    except Exception:
        setattr(d, "_disassembler__i", None)
        return None


class Probes(object):
    def __init__(self, cpu, mode, regs, pcname, blocks):
        self.cpu, self.mode, self.regs, self.pcname, self.blocks = cpu, mode, regs, pcname, blocks

    def build(self, block):
        from amoco.cas.mapper import mapper
        from amoco.cas.expressions import cst
        vals, base = c02.state_values(self.regs, self.pcname, 0)
        instrs = []
        addr = vals.get(self.pcname, base)
        psize = self.regs[self.pcname].size if self.pcname in self.regs else 32
        for h in block:
            i = decode(self.cpu, self.mode, h)
            if i is None:
                return None
            i.address = cst(addr, psize)
            addr += i.length
            instrs.append(i)
        try:
            return mapper(instrs)
        except Exception:
            return None

    def evaluate(self, M):
        """tuple of constant pieces of every register after composing with two concrete states"""
        if M is None:
            return None
        res = []
        for variant in (0, 1, 2):
            vals, base = c02.state_values(self.regs, self.pcname, variant)
            C = c02.concrete_state(self.regs, vals, base)
            try:
                R = C >> M
            except Exception as ex:
                res.append(("exc", type(ex).__name__))
                continue
            row = []
            for n in sorted(self.regs):
                try:
                    v = R[self.regs[n]]
                except Exception:
                    row.append((n, "exc"))
                    continue
                row.append((n, tuple(c02.const_bits(v))))
            mem = c02.flat_memory(R, base)
            row.append(("mem", hash(tuple(mem)) if mem is not None else None))
            res.append(tuple(row))
        return tuple(res)


def first_diff(a, b):
    if a is None or b is None:
        return "map could not be built/evaluated in one of the states"
    for va, vb in zip(a, b):
        if va == vb:
            continue
        if isinstance(va, tuple) and va and va[0] == "exc" or isinstance(vb, tuple) and vb and vb[0] == "exc":
            return "%r vs %r" % (va, vb)
        for x, y in zip(va, vb):
            if x != y:
                return "%s: %r now, %r in the initial state" % (x[0], y[1], x[1])
    return "?"


def mode_unit(args):
    isa, mode, tier = args
    cpu = isas.load(isa)
    isas.set_mode(cpu, mode)
    mname = isas.mode_name(mode)
    regs = c02.universe(cpu)
    try:
        pcname = cpu.PC().ref
    except Exception:
        pcname = None
    full = tier == "thorough"
    objs = global_objects(cpu)
    G0 = snapshot(cpu, objs)
    cands = c02.decode_candidates(cpu, isa, mode, 6 if full else 3)
    restore(cpu, objs, G0)
    G0b = snapshot(cpu, objs)
    fails = []
    stats = {"states": 1, "transitions": 0, "probe_evals": 0, "globals": len(objs), "restore_ok": G0b == G0}
    byclass = {}
    mn_of = {}
    for h, mn, fp in cands:
        mn_of[h] = mn
        byclass.setdefault(fp, [])
        if len(byclass[fp]) < 2 and mn not in [x[1] for x in byclass[fp]]:
            byclass[fp].append((h, mn))
    alpha = [x[0] for fp in sorted(byclass) for x in byclass[fp]]
    P = Probes(cpu, mode, regs, pcname, [])
    # consumers: instructions whose meaning is sensitive to the sign annotation of the global
    # registers are found automatically (evaluate with every tracked flag cleared / set)
    sensitive = []
    allset = (tuple((n, sz, True, et, sub) for (n, sz, sf, et, sub) in G0[0]),) + G0[1:]
    for h, mn, fp in cands:
        if len(sensitive) >= (40 if full else 16):
            break
        if mn in [mn_of[x] for x in sensitive]:
            continue
        restore(cpu, objs, G0)
        r0 = P.evaluate(P.build([h]))
        restore(cpu, objs, allset)
        r1 = P.evaluate(P.build([h]))
        restore(cpu, objs, G0)
        if r0 is not None and r1 is not None and r0 != r1:
            sensitive.append(h)
    # targeted probes ("force the collision"): a transition that changes the annotation of ONE global object is only
    # observable through a consumer that reads that very object. For every object some single transition changes,
    # the encodings of the sf-sensitive specifications are searched for one whose result depends on that object alone.
    targeted = []
    if sensitive:
        from amoco.cas.mapper import mapper as _mapper
        changed_objs = {}
        for h, mn, fp in cands:
            restore(cpu, objs, G0)
            i = decode(cpu, mode, h)
            if i is None:
                continue
            try:
                _mapper([i])
            except Exception:
                pass
            G2 = snapshot(cpu, objs)
            for idx, (a, b) in enumerate(zip(G0[0], G2[0])):
                if a != b and idx not in changed_objs:
                    changed_objs[idx] = b
        restore(cpu, objs, G0)
        sens_specs = []
        for h in sensitive:
            i = decode(cpu, mode, h)
            if i is not None and i.spec not in sens_specs:
                sens_specs.append(i.spec)
        restore(cpu, objs, G0)
        d = cpu.disassemble
        pool, seenp = [], set()
        for sp in sens_specs:
            k = 0
            for b in specwords.cases_for_spec(isa, sp, d.endian(), d.maxlen, "quick"):
                if not b:
                    continue
                i = decode(cpu, mode, b.hex())
                if i is None or i.spec is not sp:
                    continue
                hb = bytes(i.bytes).hex()
                if hb in seenp:
                    continue
                seenp.add(hb)
                pool.append((hb, str(i.mnemonic)))
                k += 1
                if k >= (160 if full else 80):
                    break
        restore(cpu, objs, G0)
        base_pool = {}
        for idx in sorted(changed_objs)[:(16 if full else 8)]:
            Gx = (tuple(changed_objs[idx] if j == idx else x for j, x in enumerate(G0[0])),) + G0[1:]
            found = 0
            for hb, mn in pool:
                if hb in alpha or hb in sensitive or hb in targeted:
                    continue
                if hb not in base_pool:
                    restore(cpu, objs, G0)
                    base_pool[hb] = P.evaluate(P.build([hb]))
                restore(cpu, objs, Gx)
                r1 = P.evaluate(P.build([hb]))
                if base_pool[hb] is not None and r1 is not None and r1 != base_pool[hb]:
                    targeted.append(hb)
                    mn_of.setdefault(hb, mn)
                    found += 1
                    if found >= 2:
                        break
        restore(cpu, objs, G0)
    stats["targeted_probes"] = [mn_of.get(h, "?") for h in targeted]
    blocks = [[h] for h in alpha] + [[h] for h in sensitive if h not in alpha] + [[h] for h in targeted]
    blocks += ([[a, b] for a in alpha[:8] for b in alpha[:8]] if full else [[a, b] for a in alpha[:4] for b in alpha[:4]])
    P.blocks = blocks
    stats["sf_sensitive_probes"] = [mn_of[h] for h in sensitive]
    # re-execution: the same decoded instruction object executed again must give the same map
    # (an instruction object is shared by every pass over its block)
    from amoco.cas.mapper import mapper as _mapper2
    from amoco.cas.expressions import cst as _cst2
    stats["reexecutions"] = 0
    for h, mn, fp in cands:
        restore(cpu, objs, G0)
        i = decode(cpu, mode, h)
        if i is None:
            continue
        try:
            vals0, base0 = c02.state_values(regs, pcname, 0)
            psz = regs[pcname].size if pcname in regs else 32
            i.address = _cst2(vals0.get(pcname, base0), psz)
            rs = []
            for _k in range(3):
                restore(cpu, objs, G0)
                rs.append(P.evaluate(_mapper2([i])))
            stats["reexecutions"] += 1
        except Exception:
            continue
        if rs[0] is not None and (rs[1] != rs[0] or rs[2] != rs[0]):
            bad = 1 if rs[1] != rs[0] else 2
            fails.append(Failure((isa, mname, "re-execution", mn), "%s %s: executing the same decoded instruction object %s [%s] again (pass %d) gives another map: %s" % (
                isa, mname, h, mn, bad + 1, first_diff(rs[0], rs[bad])), {"isa": isa, "mode": mode, "history": [["reexec", h]], "probe": [h], "kind": "re-execution"}, rank=1).to_json())
    restore(cpu, objs, G0)
    # results and map objects in the initial state
    base_maps, base_res = [], []
    for b in blocks:
        restore(cpu, objs, G0)
        M = P.build(b)
        restore(cpu, objs, G0)
        base_maps.append(M)
        base_res.append(P.evaluate(M))
        restore(cpu, objs, G0)
    # replay determinism of the probes themselves in G0
    for k in (0, len(blocks) // 2):
        if blocks:
            restore(cpu, objs, G0)
            if P.evaluate(P.build(blocks[k])) != base_res[k]:
                return {"fails": [], "stats": stats, "harness": "probe %r not reproducible in the initial state" % (blocks[k],)}
    restore(cpu, objs, G0)
    # transitions
    from amoco.cas.mapper import mapper
    trans = [("exec", h) for h, mn, fp in cands]
    trans += [("eval-probe", k) for k in range(min(len(blocks), 6))]
    trans.append(("bad-decode", "ff" * 8))
    depth = 3 if full else 2
    seen = {G0: []}
    frontier = [(G0, [])]
    state_fail, emitted = {}, set()

    def apply(t):
        if t[0] == "exec":
            i = decode(cpu, mode, t[1])
            if i is not None:
                try:
                    mapper([i])
                except Exception:
                    pass
        elif t[0] == "eval-probe":
            P.evaluate(base_maps[t[1]])
        else:
            decode(cpu, mode, t[1])

    def tname(t):
        return "exec:%s" % mn_of.get(t[1], "?") if t[0] == "exec" else t[0]

    alpha_set = set(alpha) | set(sensitive) | set(targeted)
    for dpt in range(depth):
        nxt = []
        # below the first level only the alphabet (and the non-exec transitions) is applied
        T = trans if dpt == 0 else [t for t in trans if t[0] != "exec" or t[1] in alpha_set]
        for G, hist in frontier:
            for t in T:
                restore(cpu, objs, G)
                if snapshot(cpu, objs) != G:
                    return {"fails": [], "stats": stats, "harness": "restore fidelity lost after %r" % (hist,)}
                apply(t)
                stats["transitions"] += 1
                G2 = snapshot(cpu, objs)
                if G2 in seen:
                    # a known global state reached by another transition: its probe failures are also this transition's
                    if G2 != G and (G2, tname(t)) not in emitted and state_fail.get(G2):
                        emitted.add((G2, tname(t)))
                        h2 = hist + [list(t)]
                        changed = diff(G, G2)
                        glob = ",".join(sorted(set(c.split(".")[-1] for c in changed))) or "?"
                        for (k, kind, detail) in state_fail[G2]:
                            b = blocks[k]
                            sig = (isa, mname, "after=" + tname(t), "global=" + glob, kind)
                            fails.append(Failure(sig, "%s %s: after %s (which changed global state: %s) the probe block %s [%s] %s evaluates differently: %s" % (
                                isa, mname, [tname(tuple(x)) for x in h2], changed[:4], b, " ; ".join(mn_of.get(h, "?") for h in b), kind, detail),
                                {"isa": isa, "mode": mode, "history": h2, "probe": b, "kind": kind}, rank=len(h2)).to_json())
                    continue
                h2 = hist + [list(t)]
                seen[G2] = h2
                emitted.add((G2, tname(t)))
                state_fail[G2] = []
                stats["states"] += 1
                changed = diff(G, G2)
                # invariant in the new global state: probes rebuilt now, and the old map objects
                for k, b in enumerate(blocks):
                    restore(cpu, objs, G2)
                    r_new = P.evaluate(P.build(b))
                    restore(cpu, objs, G2)
                    r_old = P.evaluate(base_maps[k])
                    stats["probe_evals"] += 2
                    for kind, r in (("rebuilt", r_new), ("old-map", r_old)):
                        if r != base_res[k]:
                            glob = ",".join(sorted(set(c.split(".")[-1] for c in changed))) or "?"
                            sig = (isa, mname, "after=" + tname(t), "global=" + glob, kind)
                            state_fail[G2].append((k, kind, first_diff(base_res[k], r)))
                            fails.append(Failure(sig, "%s %s: after %s (which changed global state: %s) the probe block %s [%s] %s evaluates differently: %s" % (
                                isa, mname, [tname(tuple(x)) for x in h2], changed[:4], b, " ; ".join(mn_of.get(h, "?") for h in b), kind, first_diff(base_res[k], r)),
                                {"isa": isa, "mode": mode, "history": h2, "probe": b, "kind": kind}, rank=len(h2)).to_json())
                nxt.append((G2, h2))
        frontier = nxt
        if not frontier:
            break
    restore(cpu, objs, G0)
    stats["closed"] = not frontier
    stats["changing_transitions"] = sorted(set(tname(tuple(h[-1])) for h in seen.values() if h))[:40]
    return {"fails": fails, "stats": stats, "isa": isa, "mode": mname, "harness": None}


def run(tier, seed):
    rep = Report("C10", "model_checking")
    modes = core.rotate(isas.modes(), seed)
    ctx = mp.get_context("fork")
    with ctx.Pool(core.NPROC, initializer=core._init_worker, maxtasksperchild=1) as pool:
        res = core._watched_map(pool, mode_unit, [(isa, mode, tier) for isa, mode in modes], 1)
    tot = {"states": 0, "transitions": 0, "probe_evals": 0}
    per = []
    for (isa, mode), r in zip(modes, res):
        if r.get("harness"):
            rep.harness_errors.append("%s %s: %s" % (isa, isas.mode_name(mode), r["harness"]))
        for k in tot:
            tot[k] += r["stats"].get(k, 0)
        per.append({"isa": isa, "mode": isas.mode_name(mode), "global_states": r["stats"].get("states"), "transitions": r["stats"].get("transitions"),
                    "globals_tracked": r["stats"].get("globals"), "closed_below_bound": r["stats"].get("closed"),
                    "state_changing_transitions": r["stats"].get("changing_transitions"),
                    "sf_sensitive_probes": r["stats"].get("sf_sensitive_probes"),
                    "targeted_probes": r["stats"].get("targeted_probes")})
        for f in r["fails"]:
            rep.add(Failure.from_json(f))
    rep.failures.sort(key=lambda f: (f.rank, f.sig))
    rep.coverage.update({
        "states": tot["states"], "transitions": tot["transitions"], "traces_validated_against_impl": tot["probe_evals"],
        "evaluations": tot["probe_evals"] + tot["transitions"], "distinct_nontrivial": max(2, tot["states"]),
        "rule": "per ISA mode in a fresh process: state = snapshot (size, sf, etype, _subrefs) of every register/slice object reachable "
                "from the cpu module namespace + internals + regtype.cur + pending prefix; transitions = decode + symbolic execution of "
                "every spec-driven executable instruction (1-2 encodings per mnemonic), evaluation of stored maps on concrete states, a "
                "failing decode; BFS with de-duplication on the snapshot (restore fidelity asserted); in every new global state every "
                "probe block (derived alphabet, length 1 and 2) rebuilt now AND the map objects built in the initial state must evaluate "
                "to the same constants on two concrete states as in the initial state",
        "per_mode": per, "depth": 3 if tier == "thorough" else 2,
        "samples": [{"isa": per[0]["isa"], "transition": "exec of each candidate instruction, then all probes"}],
    })
    rep.assumptions = ["global state outside the tracked objects (e.g. caches inside third-party modules) is not observed",
                       "hashing on the snapshot is justified by the asserted restore fidelity and probe reproducibility"]
    return rep


def _replay(isa, mode, history, probe, kind):
    cpu = isas.load(isa)
    isas.set_mode(cpu, mode)
    regs = c02.universe(cpu)
    pcname = cpu.PC().ref
    P = Probes(cpu, mode, regs, pcname, [probe])
    from amoco.cas.mapper import mapper
    M0 = P.build(probe)
    r0 = P.evaluate(M0)
    for t in history:
        if t[0] == "exec":
            i = decode(cpu, mode, t[1])
            if i is not None:
                try:
                    mapper([i])
                except Exception:
                    pass
        elif t[0] == "bad-decode":
            decode(cpu, mode, t[1])
        else:
            P.evaluate(M0)
    r1 = P.evaluate(P.build(probe)) if kind == "rebuilt" else P.evaluate(M0)
    return None if r1 == r0 else first_diff(r0, r1)


def replay(case):
    from amc.checks.c11 import in_fresh_process
    d = in_fresh_process(_replay, case["isa"], case["mode"], case["history"], case["probe"], case["kind"])
    return [Failure((case["isa"], case["kind"]), d, case)] if d else []
