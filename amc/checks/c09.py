"""C09 -- stores and loads through symbolic pointers stay correct under aliasing.
All load/store programs up to a length over two pointer registers x every
concrete pointer assignment, against a bytearray execution."""
import json, itertools
from amc import core
from amc.core import Failure, Report, exc_sig
from amc.ref import bv

PBASE = 0x1000
LO, HI = 0x0FF0, 0x1020          # concrete memory window around p
QFAR = 0x2000
R1, R2 = 0x11223344, 0xA1B2C3D4


def membyte(a):
    return (a * 29 + 7) & 0xFF


KVAL = 0x5A6B7C8D      # "k": a constant source (kept as raw bytes by the memory model, unlike register values)


def ops_menu(offs, sizes, regs, konst=False):
    S = [("st", p, o, s, r) for p in ("p", "q") for o in offs for s in sizes for r in (tuple(regs) + (("k",) if konst else ()))]
    L = [("ld", r, p, o, s) for r in regs for p in ("p", "q") for o in offs for s in sizes]
    return S, L


def programs(tier):
    S, L = ops_menu((0, 1, 2), (8, 16, 32), ("r1", "r2"), konst=True)
    A = S + L
    out = [[a] for a in A] + [[a, b] for a in A for b in A]
    if tier == "quick":
        S3, L3 = ops_menu((0, 1), (8, 32), ("r1",))
    else:
        S3, L3 = ops_menu((0, 1), (8, 16, 32, 64), ("r1", "r2"))
    A3 = S3 + L3
    for t in itertools.product(A3, repeat=3):
        k = [x[0] for x in t]
        if "st" in k and "ld" in k:
            out.append(list(t))
    # store-only triples (a location stored, overlapped, stored again): final memory is compared
    S3b, _ = ops_menu((0, 1, 2) if tier == "thorough" else (0, 1), (8, 32) if tier == "quick" else (8, 16, 32), ("r1", "r2"))
    for t in itertools.product(S3b, repeat=3):
        out.append(list(t))
    # length 4, shape (any, store, store, load): two value registers, so that a loaded value can be stored elsewhere
    # after its source was overwritten, and a narrow store can sit between a wide store and a wide load
    S4b, L4b = ops_menu((0,) if tier == "quick" else (0, 1), (8, 32) if tier == "quick" else (8, 16, 32), ("r1", "r2"))
    L4last = [l for l in L4b if l[1] == "r1"]
    for a in S4b + L4b:
        for b in S4b:
            for c in S4b:
                for d in L4last:
                    out.append([a, b, c, d])
    # length 4, shape (store, store, store, load) with two offsets per pointer (one value register): a store at another
    # offset of the load's own base precedes a narrower store at the load address and a later store through the other base
    S4c, L4c = ops_menu((0, 1), (8, 32), ("r1",))
    for t in itertools.product(S4c, S4c, S4c, L4c):
        if any(op[2] if op[0] == "st" else op[3] for op in t):      # offset-0-only programs are in the family above
            out.append(list(t))
    if tier == "thorough":
        S4, L4 = ops_menu((0, 1), (8, 32), ("r1",))
        A4 = S4 + L4
        for t in itertools.product(A4, repeat=4):
            k = [x[0] for x in t]
            if k.count("st") >= 2 and "ld" in k:
                out.append(list(t))
    return out


def assignments():
    return [("d%+d" % d, PBASE + d) for d in range(-4, 5)] + [("far", QFAR)]


# ------------------------------------------------------------------ reference
def ref_run(prog, qv, e):
    mem = {}
    for a in range(LO, HI):
        mem[a] = membyte(a)
    for a in range(QFAR - 8, QFAR + 24):
        mem[a] = membyte(a)
    regs = {"r1": R1, "r2": R2, "p": PBASE, "q": qv, "k": KVAL}
    for op in prog:
        if op[0] == "st":
            _, p, o, s, r = op
            n = s // 8
            v = regs[r] & ((1 << s) - 1)
            bs = v.to_bytes(n, "little" if e == 1 else "big")
            for i in range(n):
                mem[regs[p] + o + i] = bs[i]
        else:
            _, r, p, o, s = op
            n = s // 8
            bs = bytes(mem[regs[p] + o + i] for i in range(n))
            regs[r] = int.from_bytes(bs, "little" if e == 1 else "big") & 0xFFFFFFFF
    return regs, mem


def overlap_pq(prog, qv):
    """do accesses through p and through q overlap for this assignment?"""
    A = {"p": set(), "q": set()}
    base = {"p": PBASE, "q": qv}
    for op in prog:
        if op[0] == "st":
            _, p, o, s, r = op
        else:
            _, r, p, o, s = op
        for i in range(s // 8):
            A[p].add(base[p] + o + i)
    return bool(A["p"] & A["q"])


# ------------------------------------------------------------------ amoco side
def build_map(prog, e):
    from amoco.cas.mapper import mapper
    from amoco.cas import expressions as E
    R = {n: E.reg(n, 32 if n in ("p", "q", "r1", "r2") else 32) for n in ("p", "q", "r1", "r2")}
    m = mapper()
    for op in prog:
        if op[0] == "st":
            _, p, o, s, r = op
            base_src = E.cst(KVAL, 32) if r == "k" else R[r]
            src = base_src if s >= 32 else base_src[0:s]
            if s > 32:
                src = base_src.zeroextend(s)
            m[E.mem(R[p], s, disp=o, endian=e)] = m(src)
        else:
            _, r, p, o, s = op
            v = m(E.mem(R[p] + o, s, endian=e))
            if s < 32:
                v = v.zeroextend(32)
            elif s > 32:
                v = v[0:32]
            m[R[r]] = v
    return m, R


def concrete_state(R, qv):
    from amoco.cas.mapper import mapper
    from amoco.cas import expressions as E
    C = mapper()
    C[R["p"]] = E.cst(PBASE, 32)
    C[R["q"]] = E.cst(qv, 32)
    C[R["r1"]] = E.cst(R1, 32)
    C[R["r2"]] = E.cst(R2, 32)
    C.mmap.write(LO, bytes(membyte(a) for a in range(LO, HI)))
    C.mmap.write(QFAR - 8, bytes(membyte(a) for a in range(QFAR - 8, QFAR + 24)))
    return C


class ModsEnv(object):
    """walker for results that still carry mods: replay them, in order, into a copy
    of the initial concrete memory, then read (as the statement prescribes)."""
    def __init__(self, qv):
        self.regs = {"p": PBASE, "q": qv, "r1": R1, "r2": R2}
        self.qv = qv

    def initial(self):
        mem = {}
        for a in range(LO, HI):
            mem[a] = membyte(a)
        for a in range(QFAR - 8, QFAR + 24):
            mem[a] = membyte(a)
        return mem

    def value(self, x, mem=None):
        mem = self.initial() if mem is None else mem
        k = type(x).__name__
        if k == "mem":
            m2 = dict(mem)
            for loc, v in x.mods:
                a = self.value(loc, mem) if type(loc).__name__ != "mem" else self.value(loc.a, mem)
                vv = self.value(v, mem)
                n = v.size // 8
                # mods are recorded as (ptr, value): layout follows the endianness of this mem
                bs = vv.to_bytes(n, "little" if x.endian == 1 else "big")
                for i in range(n):
                    m2[a + i] = bs[i]
            a = self.value(x.a, mem)
            n = x.size // 8
            try:
                bs = bytes(m2[a + i] for i in range(n))
            except KeyError:
                raise bv.Unknown("outside window")
            return int.from_bytes(bs, "little" if x.endian == 1 else "big")
        if k == "ptr":
            return (self.value(x.base, mem) + x.disp) & 0xFFFFFFFF
        if k in ("cst", "sym"):
            return x.v
        if k == "reg":
            return self.regs[x.ref]
        if k == "comp":
            v = 0
            for (a, b), p in x.parts.items():
                v |= self.value(p, mem) << a
            return v
        if k == "slc":
            return (self.value(x.x, mem) >> x.pos) & ((1 << x.size) - 1)
        if k == "op":
            l, r = self.value(x.l, mem), self.value(x.r, mem)
            return bv.binop(x.op.symbol, l, r, x.l.size, x.l.sf, x.r.sf)[0]
        raise bv.Unknown(k)


def check_program(args):
    prog, e, noalias = args
    from amoco.config import conf
    from amoco.cas import expressions as E
    conf.Cas.noaliasing = noalias
    out = []
    n = 0
    kinds = "/".join("%s%d" % (op[0], op[3] if op[0] == "st" else op[4]) for op in prog)
    try:
        try:
            M, R = build_map(prog, e)
        except Exception as ex:
            return [(("build-exc", "%s@%s" % exc_sig(ex), kinds), "building the map of %r raised %r" % (prog, ex), None)], 0, 0
        symbolic_left = 0
        for name, qv in assignments():
            if noalias and overlap_pq(prog, qv):
                continue
            n += 1
            regs, mem = ref_run(prog, qv, e)
            try:
                C = concrete_state(R, qv)
                Rm = C >> M
            except Exception as ex:
                out.append((("compose-exc", "%s@%s" % exc_sig(ex), rel(name)), "C >> M raised %r for %r q=%s" % (ex, prog, name), name))
                continue
            env = ModsEnv(qv)
            for r in ("r1", "r2"):
                try:
                    v = Rm[R[r]]
                    if v._is_cst:
                        got = v.v
                    else:
                        symbolic_left += 1
                        got = env.value(v)
                except bv.Unknown:
                    continue
                except Exception as ex:
                    out.append((("read-exc", "%s@%s" % exc_sig(ex), rel(name)), "reading %s raised %r" % (r, ex), name))
                    continue
                if got != regs[r]:
                    out.append((vsig("load-value", prog, kinds, name, e, noalias),
                                "program %r (endian %d, noaliasing=%s) with p=%#x q=%#x: %s = %s -> %#x, byte-level execution gives %#x [map: %s]" % (
                                    prog, e, noalias, PBASE, qv, r, v, got, regs[r], str(M).replace("\n", "; ")), name))
                    break
            # final memory, byte by byte
            lo, hi = (LO + 8, HI - 8)
            bad = None
            for a in list(range(lo, hi)) + list(range(QFAR, QFAR + 8)):
                try:
                    v = Rm[E.mem(E.cst(a, 32), 8)]
                    if v._is_cst:
                        got = v.v
                    else:
                        got = env.value(v)
                except bv.Unknown:
                    continue
                except Exception as ex:
                    bad = ("mem-read-exc", "%s@%s" % exc_sig(ex), "reading byte %#x raised %r" % (a, ex))
                    break
                if got != mem[a]:
                    bad = ("mem-value", None, "byte %#x = %#x, byte-level execution gives %#x" % (a, got, mem[a]))
                    break
            if bad:
                if bad[0] == "mem-value":
                    out.append((vsig("mem-value", prog, kinds, name, e, noalias),
                                "program %r (endian %d, noaliasing=%s) with p=%#x q=%#x: final memory %s [map: %s]" % (
                                    prog, e, noalias, PBASE, qv, bad[2], str(M).replace("\n", "; ")), name))
                else:
                    out.append(((bad[0], bad[1], rel(name)), bad[2], name))
        return out, n, symbolic_left
    finally:
        conf.Cas.noaliasing = True


def rel(name):
    if name == "far":
        return "disjoint"
    d = int(name[1:])
    return "equal" if d == 0 else "overlap"


def vsig(what, prog, kinds, name, e, noalias):
    """signature of a value mismatch"""
    if e == -1 and any(op[0] == "st" and op[3] > 8 for op in prog):
        # root cause: the write trace of a map does not record the endianness of a store
        return (what, "big-endian-multibyte-store")
    return (what, kinds, rel(name), "le" if e == 1 else "be", "noalias" if noalias else "alias")


_REDUCE_CACHE = {}


def _sub_failures(prog, e, noalias):
    key = (tuple(map(tuple, prog)), e, noalias)
    if key not in _REDUCE_CACHE:
        if len(_REDUCE_CACHE) > 20000:
            _REDUCE_CACHE.clear()
        _REDUCE_CACHE[key] = check_program((prog, e, noalias))[0]
    return _REDUCE_CACHE[key]


def reduce_failure(prog, e, noalias, sig, what, name):
    """delta-reduce a value mismatch: while dropping one operation leaves a program that shows the same kind of
    mismatch under the same pointer assignment, continue with that program. The failure is reported under the
    signature of the minimal program (a longer program that merely embeds a shorter failing one is the same finding)."""
    if sig[0] not in ("load-value", "mem-value"):
        return prog, sig, what
    changed = True
    while changed and len(prog) > 1:
        changed = False
        for k in range(len(prog)):
            sub = prog[:k] + prog[k + 1:]
            for s2, w2, n2 in _sub_failures(sub, e, noalias):
                if s2[0] == sig[0] and n2 == name:
                    prog, sig, what = sub, s2, w2
                    changed = True
                    break
            if changed:
                break
    return prog, sig, what


def run_chunk(chunk):
    fails = []
    n = ns = 0
    for c in chunk:
        out, k, s = check_program(c)
        n += k
        ns += s
        for sig, what, name in out:
            prog = c[0]
            if len(prog) >= 3:
                prog, sig, what = reduce_failure(list(prog), c[1], c[2], sig, what, name)
            fails.append(Failure(sig, what, {"prog": prog, "endian": c[1], "noaliasing": c[2], "q": name},
                                 rank=len(prog)).to_json())
    return fails, n, ns, len(chunk)


def run(tier, seed):
    rep = Report("C09", "model_checking")
    P = programs(tier)
    cases = []
    for prog in P:
        for e in (1, -1):
            cases.append((prog, e, False))
        if len(prog) <= 2:
            cases.append((prog, 1, True))
    cases = core.rotate(cases, seed)
    nch = core.NPROC * 8
    res = core.pmap(run_chunk, [cases[i::nch] for i in range(nch) if cases[i::nch]])
    n = ns = np_ = 0
    for fl, a, b, c in res:
        n += a
        ns += b
        np_ += c
        for f in fl:
            rep.add(Failure.from_json(f))
    # shadowing: a failing program that contains a failing shorter program
    # (same kind of mismatch, same endianness and configuration only: a big-endian failure of a sub-program says
    # nothing about a little-endian failure of the longer one)
    def skey(f, prog):
        return json.dumps([f.sig[0], f.case["endian"], f.case["noaliasing"], prog])
    failing = set(skey(f, f.case["prog"]) for f in rep.failures)
    kept = []
    for f in rep.failures:
        p = f.case["prog"]
        sub = [p[i:j] for i in range(len(p)) for j in range(i + 1, len(p) + 1) if (j - i) < len(p)]
        if any(skey(f, s) in failing for s in sub):
            continue
        kept.append(f)
    shadowed = len(rep.failures) - len(kept)
    rep.failures = sorted(kept, key=lambda f: (f.rank, json.dumps(f.case)))
    rep.coverage.update({
        "states": np_, "transitions": n, "traces_validated_against_impl": n,
        "evaluations": n, "distinct_nontrivial": len(P),
        "rule": "every load/store program of the plan (ptr in p,q; offsets 0..2; sizes 8/16/32(/64); src/dst r1,r2; both endiannesses) "
                "is executed once symbolically on an empty mapper; for every concrete pointer assignment q = p+d, d in -4..4, and "
                "disjoint, C >> M is compared with a bytearray execution on every loaded register and every byte of the memory "
                "window (results still carrying mods are interpreted by replaying their ordered mods into the initial memory); "
                "with noaliasing=True only assignments where p- and q-accesses do not overlap; non-trivial = distinct programs",
        "programs": len(P), "symbolic_results_interpreted": ns, "shadowed": shadowed,
        "samples": [P[0], P[len(P) // 2], P[-1]],
        "bound": "length <=2 full alphabet, length 3 (>=1 store, >=1 load) reduced alphabet, all store-only triples, length 4 of shape (any, store, store, load) over two value registers, (store, store, store, load) over two offsets" + (", length 4 reduced" if tier == "thorough" else ""),
    })
    return rep


def replay(case):
    out, _, _ = check_program((case["prog"], case["endian"], case["noaliasing"]))
    return [Failure(sig, what, case) for sig, what, name in out]
