"""C01 -- expression algebra preserves bit-vector meaning (see exprpass.py)."""
from amc import exprpass
from amc.core import Report

PID = "C01"


def run(tier, seed, pid=PID):
    rep = Report(pid, "model_checking")
    allf, st, planinfo, samples = exprpass.run_pass(tier, seed)
    fs, shadowed = exprpass.to_failures(allf, pid)
    for f in fs:
        rep.add(f)
    ntrees = st.get("trees", 0)
    if pid == "C01":
        ev = st.get("evals", 0) + st.get("walks", 0)
        rule = ("every well-sized expression tree of the plans below (all operator placements, leaf menu per width) is "
                "built with the operator API; under every valuation of the plan's domain (all values at width<=4) the "
                "built tree, its simplify()/bitslice/widening forms (walked by an independent interpreter) and "
                "mapper(e) (must be a cst equal to the reference or top) are compared with plain int arithmetic; "
                "non-trivial = tree with >=1 operator that amoco reduced to a constant at least once")
    else:
        ev = st.get("width_obs", 0)
        rule = ("for every tree of the plans: e.size, simplify (3 option sets), mapper(e) under concrete and partial "
                "environments and 4 slices must have the width dictated by construction; every comp reachable tiles "
                "[0,size) and smask agrees; non-trivial = tree with >=1 operator")
    rep.coverage.update({
        "states": ntrees, "transitions": ev, "traces_validated_against_impl": ntrees,
        "evaluations": ev, "distinct_nontrivial": st.get("nontrivial", 0),
        "rule": rule, "plans": planinfo, "samples": samples[:6], "stats": st,
        "shadowed_failing_supertrees": shadowed,
        "bound": "operators per tree and widths as listed per plan; leaves: registers a,b (+aux per width) and the constant menu of gen/exprs.py",
    })
    rep.assumptions = ["rotations are only compared for amounts < width; division/modulo by a zero value skipped",
                       "signed modulo accepts both sign conventions",
                       "top/undefined results are accepted (no constant claimed)"]
    return rep


def replay(case):
    return exprpass.replay_case(case, PID)
