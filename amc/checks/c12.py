"""C12 -- every expression has the width its construction dictates (see exprpass.py)."""
from amc import exprpass
from amc.checks import c01

PID = "C12"


def run(tier, seed):
    return c01.run(tier, seed, PID)


def replay(case):
    return exprpass.replay_case(case, PID)
