"""C12 -- every expression has the width its construction dictates (see exprpass.py),
plus the tiling of register values in a live mapper under whole/partial/one-bit writes (state machine of c13)."""
from amc import exprpass, core
from amc.core import Failure
from amc.checks import c01

PID = "C12"


def run(tier, seed):
    rep = c01.run(tier, seed, PID)
    from amc.checks import c13
    depth = 3 if tier == "quick" else 4
    res = core.pmap(c13.mapper_shard, [(depth, k, 32, "C12") for k in range(32)])
    tot = {"histories": 0, "invariants": 0}
    for r in res:
        for k in tot:
            tot[k] += r["stats"][k]
        for f in r["fails"]:
            rep.add(Failure.from_json(f))
    rep.coverage["states"] += tot["histories"]
    rep.coverage["transitions"] += tot["invariants"]
    rep.coverage["evaluations"] += tot["invariants"]
    rep.coverage["live_mapper"] = dict(tot, depth=depth, rule="every history of whole, byte and one-bit register writes on one mapper: "
                                       "after each write the register value has the register width and its parts tile it")
    return rep


def replay(case):
    if "mapper_history" in case:
        from amc.checks import c13
        fl, _ = c13.m_run([tuple(o) for o in case["mapper_history"]])
        return [Failure(sig, what, case) for (pid, sig, what) in fl if pid == PID]
    return exprpass.replay_case(case, PID)
