"""C04 -- the decoder index is equivalent to a most-constrained-first scan.
Structural invariants model-checked on every node of every built tree
(routing I1, completeness/order I2) + dynamic agreement with a reference scan
on witness inputs (I3)."""
import json, importlib, sys
import multiprocessing as mp
from amc import core, isas
from amc.core import Failure, Report, exc_sig
from amc.ref import fmtlang
from amc.gen import specwords

C04_MODES = [(n, m) for n, m in isas.modes()] + [("armv7", {"isetstate": 1, "ibigend": 1}), ("armv7", {"isetstate": 0, "ibigend": 1})]


def popcount(x):
    return bin(x).count("1")


def spec_modules_unit(args):
    """(fresh child) names of the spec modules of each tree of the cpu module"""
    isa, mode = args
    cpu = isas.load(isa)
    mods = [v for v in vars(cpu).values() if hasattr(v, "ISPECS") and hasattr(v, "__name__") and isinstance(getattr(v, "ISPECS"), list)]
    d = cpu.disassemble
    names = []
    for tree in d.specs:
        flat = isas.flatten(tree)
        name = None
        for m in mods:
            if flat and any(flat[0] is s for s in m.ISPECS):
                name = m.__name__
        names.append(name)
    return names


def outcome_of(i):
    if i is None:
        return None
    try:
        ops = [str(o) for o in i.operands]
    except Exception:
        ops = ["?"]
    misc = sorted((str(k), str(v)) for k, v in i.misc.items() if v is not None)
    return [i.bytes.hex(), str(i.mnemonic), ops, i.type, misc, getattr(i.spec, "format", None)]


def real_decode(d, b, kargs):
    setattr(d, "_disassembler__i", None)
    try:
        return outcome_of(d(b, **kargs))
    except Exception as ex:
        setattr(d, "_disassembler__i", None)
        return ["exc", type(ex).__name__]


def ref_decode(d, order, prefilter, b, e, kargs):
    from amoco.arch.core import DecodeError, InstructionError

    def scan(bs, pending):
        for k in prefilter(bs):
            s = order[k]
            try:
                i = s.decode(bs, e, i=pending, iclass=d.iclass)
            except (DecodeError, InstructionError):
                continue
            if i.spec.pfx is True:
                if pending is None:
                    pending = i
                return scan(bs[s.mask.size // 8:], pending)
            elif i.spec.pfx == "xdata":
                i.xdata(i, **kargs)
            return i
        return None
    try:
        return outcome_of(scan(b, None))
    except Exception as ex:
        return ["exc", type(ex).__name__]


def mode_unit(args):
    isa, mode, modnames, tier, shard, nshards = args
    # 1. registration order: import the spec modules alone, before the cpu module sorts them
    regidx = {}
    for name in modnames:
        if name is None:
            continue
        M = importlib.import_module(name)
        for k, s in enumerate(list(M.ISPECS)):
            regidx[id(s)] = (name, k)
    already_sorted = any(n and ("cpu" in x) for n in modnames for x in [m for m in sys.modules if m.startswith(n.rsplit(".", 1)[0] + ".cpu")])
    cpu = isas.load(isa)
    isas.set_mode(cpu, mode)
    d = cpu.disassemble
    mname = isas.mode_name(mode)
    tree = d.specs[d.iset()]
    e_setup = d.endian() if "ibigend" not in mode else 1   # the tree was built at import time
    e = d.endian()
    fails = []
    stats = {"nodes": 0, "edges": 0, "leaves": 0, "specs": 0, "dyn": 0, "pairs": 0, "dyn_decoded": 0}
    maxsize = d.maxlen * 8
    # NB: maxlen may be overridden after construction (x86: 15); the tree was built with the computed one
    built_maxlen = max(s.mask.size // 8 for s in isas.flatten(tree))

    def adjust(x, endian):
        return x.ival << (built_maxlen * 8 - x.size) if endian == -1 else x.ival

    def F(sig, what, case=None, rank=0):
        c = {"isa": isa, "mode": mode}
        c.update(case or {})
        fails.append(Failure((isa, mname) + tuple(sig), what, c, rank=rank).to_json())

    # ---- I1 / I2 on the tree (shard 0 only)
    leaves = []

    def walk(node, path):
        stats["nodes"] += 1
        f, l = node
        if f == 0:
            stats["leaves"] += 1
            leaves.append((path, l))
            return
        for key, sub in l.items():
            stats["edges"] += 1
            walk(sub, path + [(f, key)])
    walk(tree, [])
    flat = [s for _, l in leaves for s in l]
    stats["specs"] = len(flat)
    if shard == 0:
        for path, l in leaves:
            for s in l:
                am, af = adjust(s.mask, e_setup), adjust(s.fix, e_setup)
                for (f, key) in path:
                    if f & ~am:
                        F(("I1-routing", "mask-not-common"), "spec %r sits under a node whose sub-mask %#x tests bits the spec does not fix (mask %#x)" % (s.format, f, am), {"format": s.format})
                        break
                    if (af & f) != key:
                        F(("I1-routing", "wrong-branch"), "spec %r sits under key %#x of sub-mask %#x but its fixed bits give %#x" % (s.format, key, f, af & f), {"format": s.format})
                        break
            # order inside the leaf: mask weight descending, ties in registration order
            prev = None
            for s in l:
                if id(s) not in regidx:
                    continue
                k = (-popcount(s.mask.ival), regidx[id(s)])
                if prev is not None and k < prev[0]:
                    F(("I2-order",), "leaf lists %r before %r although the latter is more constrained or registered earlier" % (prev[1].format, s.format),
                      {"format": s.format})
                    break
                prev = (k, s)
        # completeness: every registered spec of the mode's module exactly once
        name = modnames[d.iset()] if d.iset() < len(modnames) else None
        if name:
            M = importlib.import_module(name)
            ids = [id(s) for s in flat]
            for s in M.ISPECS:
                c = ids.count(id(s))
                if c != 1:
                    F(("I2-complete",), "spec %r occurs %d times in the tree" % (s.format, c), {"format": s.format})
                    break
            if len(flat) != len(M.ISPECS):
                F(("I2-complete", "count"), "tree holds %d specs, module registers %d" % (len(flat), len(M.ISPECS)))
    # ---- reference order: stable sort of the registration order by mask weight
    order = sorted([s for s in flat], key=lambda s: (-popcount(s.mask.ival), regidx.get(id(s), ("", 0))))
    ofix = [s.fix.ival for s in order]
    omask = [s.mask.ival for s in order]
    olen = [s.fix.size // 8 for s in order]
    bo = "little" if e == 1 else "big"

    def prefilter(bs):
        out = []
        n = len(bs)
        for k in range(len(order)):
            L = olen[k]
            if n < L:
                continue
            w = int.from_bytes(bs[:L], bo)
            if (w & omask[k]) == ofix[k]:
                out.append(k)
        return out

    kargs = {}

    def compare(b, why, fmts):
        stats["dyn"] += 1
        isas.set_mode(cpu, mode)
        r = real_decode(d, b, kargs)
        x = ref_decode(d, order, prefilter, b, e, kargs)
        if r is not None and r[0] != "exc":
            stats["dyn_decoded"] += 1
        if r != x:
            lc = "exact" if why == "exact" else why
            F(("I3-outcome", lc), "decode(%s): tree gives %r, most-constrained-first scan gives %r [%s]" % (b.hex(), r, x, fmts),
              {"bytes": b.hex()}, rank=len(b))

    # ---- I3: witness inputs of every spec (sharded)
    full = tier == "thorough"
    parsed = []
    for s in order:
        try:
            parsed.append(fmtlang.parse(s.format))
        except Exception:
            parsed.append(None)
    pfx_words = []
    for k, s in enumerate(order):
        if s.pfx is True and parsed[k] is not None and len(pfx_words) < 4:
            w0 = specwords.words(parsed[k], False)[0].to_bytes(parsed[k].nbits // 8, bo)
            if w0 not in pfx_words:
                pfx_words.append(w0)
    for k, s in enumerate(order):
        if k % nshards != shard:
            continue
        fs = parsed[k]
        if fs is None:
            continue
        nb = fs.nbits // 8
        W = specwords.words(fs, full)
        W = W if full else W[:24]
        for w in W:
            hb = w.to_bytes(nb, bo)
            compare(hb, "exact", s.format)
            compare(hb + b"\x00" * 14, "longer", s.format)
            if full:
                compare(hb + b"\xff" * 3, "longer", s.format)
                compare(hb + specwords.INC, "longer", s.format)
        hb = W[0].to_bytes(nb, bo)
        for j in range(nb):
            compare(hb[:j], "truncated", s.format)
        compare(hb + b"\xff" * (d.maxlen + 2), "longer", s.format)
        if isa in ("x86", "x64"):
            for p in (b"\x66", b"\xf3", b"\x2e", b"\x48") if not full else specwords.X86_PREFIXES_T[1:]:
                compare(p + hb + b"\x00" * 10, "prefixed", s.format)
        # any ISA with prefix specifications: two prefixes in front of the witness, input longer than maxlen
        # (the bytes after a prefix are not limited to the maxlen window of the first call)
        if pfx_words and not s.pfx:
            for p in pfx_words[:3]:
                for q in pfx_words[:2]:
                    compare(p + q + hb + b"\x00" * d.maxlen, "prefixed-long", s.format)
            compare(pfx_words[0] * (d.maxlen // 2 + 1) + hb + b"\x00" * d.maxlen, "prefixed-long", s.format)
        # compatible pairs: who wins?
        fb = s.fix.ival.to_bytes(nb, bo)
        mb = s.mask.ival.to_bytes(nb, bo)
        for j in range(k + 1, len(order)):
            t = order[j]
            tb_n = t.fix.size // 8
            ft = t.fix.ival.to_bytes(tb_n, bo)
            mt = t.mask.ival.to_bytes(tb_n, bo)
            n = max(nb, tb_n)
            ok = True
            joint = bytearray(n)
            for x in range(n):
                a_f = fb[x] if x < nb else 0
                a_m = mb[x] if x < nb else 0
                b_f = ft[x] if x < tb_n else 0
                b_m = mt[x] if x < tb_n else 0
                if (a_f ^ b_f) & a_m & b_m:
                    ok = False
                    break
                joint[x] = a_f | b_f
            if not ok:
                continue
            stats["pairs"] += 1
            compare(bytes(joint) + b"\x00" * 12, "pair", s.format + " / " + t.format)
    # words matching no spec
    if shard == 0:
        for v in (0x00, 0xFF, 0x0F, 0xD6, 0x06, 0xF1):
            compare(bytes([v]) * (d.maxlen + 1), "filler", "-")
        compare(b"", "empty", "-")
    return {"fails": fails, "stats": stats}


def run(tier, seed):
    rep = Report("C04", "model_checking")
    modes = core.rotate(C04_MODES if tier == "thorough" else C04_MODES[:-1], seed)
    ctx = mp.get_context("fork")
    NS = {"x86": 16, "x64": 16, "tricore": 8, "armv7": 6}
    with ctx.Pool(core.NPROC, initializer=core._init_worker, maxtasksperchild=1) as pool:
        names = core._watched_map(pool, spec_modules_unit, modes, 1)
        jobs = []
        for (isa, mode), nm in zip(modes, names):
            ns = NS.get(isa, 2)
            for k in range(ns):
                jobs.append((isa, mode, nm, tier, k, ns))
        res = core._watched_map(pool, mode_unit, jobs, 1)
    tot = {}
    per = {}
    for j, r in zip(jobs, res):
        for k, v in r["stats"].items():
            if k in ("nodes", "edges", "leaves", "specs"):
                if j[4] == 0:
                    tot[k] = tot.get(k, 0) + v
            else:
                tot[k] = tot.get(k, 0) + v
        if j[4] == 0:
            per[(j[0], isas.mode_name(j[1]))] = {kk: r["stats"][kk] for kk in ("nodes", "edges", "leaves", "specs")}
        for f in r["fails"]:
            rep.add(Failure.from_json(f))
    rep.failures.sort(key=lambda f: (f.sig, f.rank))
    rep.coverage.update({
        "states": tot.get("nodes", 0), "transitions": tot.get("edges", 0) + tot.get("dyn", 0),
        "traces_validated_against_impl": tot.get("dyn", 0),
        "evaluations": tot.get("dyn", 0), "distinct_nontrivial": tot.get("dyn_decoded", 0),
        "rule": "I1/I2: every node, edge and leaf of every built decision tree is visited: each spec's fixed bits imply its path, every "
                "registered spec occurs exactly once, leaves are ordered by mask weight (desc) then registration order (taken from the "
                "spec module imported before the disassembler sorts it); I3: tree decode versus a most-constrained-first scan "
                "(with the same prefix recursion) on witness words of every spec at exact/longer/truncated lengths, with x86 prefixes, "
                "on the joint word of every pair of specs with compatible fixed bits, on filler bytes and the empty input; "
                "non-trivial = dynamic inputs that decoded to an instruction",
        "trees": [{"isa": a, "mode": b, **v} for (a, b), v in sorted(per.items())],
        "compatible_pairs": tot.get("pairs", 0),
        "samples": [{"isa": jobs[0][0], "mode": jobs[0][1], "kind": "exact/longer/truncated/pair words of each spec"}],
    })
    rep.assumptions = ["acceptance of a spec == fixed-bit test (decided by C03) is used to pre-filter the reference scan",
                       "specs in different leaves cannot accept a common input when I1 holds (routing is a function of the input)"]
    return rep


def replay(case):
    """re-run the dynamic comparison for one input (ties broken by the current tree order)"""
    if "bytes" not in case:
        return []
    isa, mode = case["isa"], case["mode"]
    cpu = isas.load(isa)
    isas.set_mode(cpu, mode)
    d = cpu.disassemble
    flat = isas.flatten(d.specs[d.iset()])
    pos = {id(s): k for k, s in enumerate(flat)}
    order = sorted(flat, key=lambda s: (-popcount(s.mask.ival), pos[id(s)]))
    e = d.endian()
    bo = "little" if e == 1 else "big"

    def prefilter(bs):
        out = []
        for k, s in enumerate(order):
            L = s.fix.size // 8
            if len(bs) >= L and (int.from_bytes(bs[:L], bo) & s.mask.ival) == s.fix.ival:
                out.append(k)
        return out
    b = bytes.fromhex(case["bytes"])
    r = real_decode(d, b, {})
    x = ref_decode(d, order, prefilter, b, e, {})
    if r != x:
        return [Failure((isa, isas.mode_name(mode), "I3-outcome"), "decode(%s): tree %r, scan %r" % (b.hex(), r, x), case)]
    return []
