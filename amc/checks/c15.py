"""C15 -- a loaded program's memory image equals the file's mapping.
Synthesised ELF images per machine with a loader (segment geometries x
filesz/memsz x page sizes), generated PE/Mach-O images, HEX/SREC/raw inputs and
the shipped samples; every byte of every loadable segment is compared."""
import io, os, json, struct
from amc import core
from amc.core import Failure, Report, exc_sig
from amc.ref import elfio as EI
from amc.checks import c14

MACHINES = [
    ("x86-64", 62, 64, False), ("i386", 3, 32, False), ("arm", 40, 32, False), ("aarch64", 183, 64, False),
    ("sparc", 2, 32, True), ("riscv", 243, 32, False), ("sh", 42, 32, False), ("mips-be", 8, 32, True), ("mips-le", 8, 32, False),
    ("bpf", 247, 64, False), ("avr", 83, 32, False), ("tricore", 44, 32, False),
]
PAGESIZES = [4096, 256, 65536]


def fill(n, k):
    return bytes(((i * 11 + k * 37 + 1) & 0xFF) or 0x5A for i in range(n))


def geometries(tier):
    """list of (label, [segment dicts]); entry is in segment 0"""
    G = []
    base = 0x400000
    fz = [("eq", 0x60, 0x60), ("bss", 0x20, 0x60), ("nofile", 0, 0x40)]
    G.append(("one-aligned", [dict(vaddr=base, n=0x80, memsz=0x80, align=0x1000)]))
    G.append(("one-unaligned", [dict(vaddr=base + 0x234, n=0x80, memsz=0x80, align=0x1000)]))
    for lab, fsz, msz in fz:
        G.append(("two-separate/" + lab, [dict(vaddr=base, n=0x80, memsz=0x80, align=0x1000),
                                           dict(vaddr=base + 0x201000 + 0x10, n=fsz, memsz=msz, align=0x1000)]))
        G.append(("two-share-page/" + lab, [dict(vaddr=base, n=0x80, memsz=0x80, align=0x1000),
                                             dict(vaddr=base + 0x100, n=fsz, memsz=msz, align=0x100, contiguous=True)]))
        G.append(("two-adjacent/" + lab, [dict(vaddr=base + 0x40, n=0x40, memsz=0x40, align=0x10),
                                           dict(vaddr=base + 0x80, n=fsz, memsz=msz, align=0x10, contiguous=True)]))
    if tier == "thorough":
        G.append(("three", [dict(vaddr=base, n=0x80, memsz=0x80, align=0x1000),
                            dict(vaddr=base + 0x1100, n=0x40, memsz=0x40, align=0x100),
                            dict(vaddr=base + 0x2200, n=0x20, memsz=0x120, align=0x100)]))
        G.append(("bss-crosses-page", [dict(vaddr=base, n=0x80, memsz=0x80, align=0x1000),
                                        dict(vaddr=base + 0x1F00, n=0x40, memsz=0x300, align=0x100)]))
    return G


def build_elf(machine, cls, msb, segs, tail=0xCC):
    S = []
    for k, g in enumerate(segs):
        S.append(dict(type=EI.PT_LOAD, flags=5 if k == 0 else 6, vaddr=g["vaddr"], data=fill(g["n"], k + 1), memsz=g["memsz"], align=g["align"]))
    b = EI.Builder(cls, msb, machine=machine)
    blob, desc = b.build(S, [], [], segs[0]["vaddr"] + 4, "ph-first", 0, True)
    # bytes that follow the last segment in the file must not be zero (a loader that maps them shows)
    blob = blob + bytes([tail]) * 0x300
    return blob, desc


def build_dyn_elf(cls, nsyms, relsyms, rela=False):
    """a dynamically linked x86 / x86-64 executable: PT_INTERP, one PT_LOAD holding a table of pointer-sized slots,
    .dynsym with nsyms symbols (sym000..), .dynstr, a REL(A) section binding slot k to symbol relsyms[k].
    returns (bytes, load (vaddr, offset, filesz, memsz), entry, {slot address: symbol name})"""
    import struct
    order = "<"
    machine = 3 if cls == 32 else 62
    psz = cls // 8
    base = 0x08049000 if cls == 32 else 0x601000
    dynstr = b"\0"
    symb = b"\0" * struct.calcsize(order + EI.SYM[cls][0])
    names = []
    for k in range(1, nsyms):
        nm = "sym%03d" % k
        names.append(nm)
        st_name = len(dynstr)
        dynstr += nm.encode() + b"\0"
        symb += EI.pack(order, EI.SYM[cls][0], EI.SYM[cls][1], dict(st_name=st_name, st_value=0, st_size=0, st_info=0x12, st_other=0, st_shndx=0))
    rel = b""
    slots = {}
    for j, k in enumerate(relsyms):
        off = base + 0x40 + psz * j
        if cls == 32:
            info = (k << 8) | 7
            rel += struct.pack("<II", off, info) + (struct.pack("<i", 0) if rela else b"")
        else:
            info = (k << 32) | 7
            rel += struct.pack("<QQ", off, info) + (struct.pack("<q", 0) if rela else b"")
        slots[off] = "sym%03d" % k
    dyn = struct.pack("<II" if cls == 32 else "<QQ", 0, 0)
    segs = [dict(type=3, flags=4, vaddr=base - 0x100, data=b"/lib/ld-linux.so.2\0", memsz=19, align=1),
            dict(type=EI.PT_LOAD, flags=6, vaddr=base, data=fill(0x200, 7), memsz=0x200, align=0x1000),
            dict(type=2, flags=6, vaddr=base + 0x1000, data=dyn, memsz=len(dyn), align=psz)]
    relsz = len(rel) // len(relsyms)
    secs = [dict(name=".dynsym", type=EI.SHT_DYNSYM, flags=2, addr=0, data=symb, link=2, info=1, addralign=psz, entsize=struct.calcsize(order + EI.SYM[cls][0])),
            dict(name=".dynstr", type=EI.SHT_STRTAB, flags=2, addr=0, data=dynstr, link=0, info=0, addralign=1, entsize=0),
            dict(name=".rela.plt" if rela else ".rel.plt", type=EI.SHT_RELA if rela else EI.SHT_REL, flags=2, addr=0, data=rel, link=1, info=0, addralign=psz, entsize=relsz),
            dict(name=".dynamic", type=EI.SHT_DYNAMIC, flags=3, addr=base + 0x1000, data=dyn, link=2, info=0, addralign=psz, entsize=len(dyn))]
    b = EI.Builder(cls, False, machine=machine)
    blob, desc = b.build(segs, secs, [], base + 4, "ph-first", 0, True)
    g = desc["phdrs"][1]
    return blob, (g["p_vaddr"], g["p_offset"], g["p_filesz"], g["p_memsz"]), base + 4, slots


def flat(parts):
    out = []
    for p in parts:
        if isinstance(p, (bytes, bytearray)):
            out.extend(p)
        else:
            n = p.size // 8
            if getattr(p, "_is_cst", False):
                out.extend([(p.v >> (8 * i)) & 0xFF for i in range(n)])
            else:
                out.extend([None if not getattr(p, "_is_def", 1) else "sym"] * n)
    return out


def check_image(task, blob, loads, entry, tag, cdesc, check_fetch=True, slots=None):
    """loads: list of (vaddr, file offset, filesz, memsz). yields (what, detail).
    slots: {address: (size in bytes, external symbol name)} -- import address table entries, which the loader
    binds to external symbols; they are checked separately and masked in the byte comparison"""
    out = []
    mm = task.state.mmap
    for a, (n, name) in sorted((slots or {}).items()):
        try:
            r = mm.read(a, n)
        except Exception as ex:
            out.append(("iat-exc:%s@%s" % exc_sig(ex), "reading the import slot %#x raised %r" % (a, ex)))
            continue
        x = r[0] if len(r) == 1 else None
        if x is None or not getattr(x, "_is_ext", False) or x.size != 8 * n or str(x.ref) != name:
            out.append(("iat", "import slot %#x holds %r, the import tables bind it to external symbol %r" % (a, [str(q) for q in r], name)))
            break
    for (va, off, fsz, msz) in loads:
        try:
            got = flat(mm.read(va, msz)) if msz else []
        except Exception as ex:
            out.append(("read-exc:%s@%s" % exc_sig(ex), "reading [%#x,+%#x) raised %r" % (va, msz, ex)))
            continue
        want = list(blob[off:off + fsz]) + [0] * (msz - fsz)
        for a, (n, name) in (slots or {}).items():
            for j in range(n):
                if 0 <= a + j - va < min(len(got), len(want)):
                    got[a + j - va] = want[a + j - va] = "slot"
        if got != want:
            k = next((j for j in range(min(len(got), len(want))) if got[j] != want[j]), min(len(got), len(want)))
            where = "file-backed" if k < fsz else "zero-tail"
            out.append((where, "segment at %#x (filesz %#x, memsz %#x): byte %#x reads %r, expected %#04x (%s part)" % (
                va, fsz, msz, va + k, got[k] if k < len(got) else "<missing>", want[k] if k < len(want) else 0, where)))
    try:
        pc = task.state(task.cpu.PC())
        if not (hasattr(pc, "v") and pc.v == entry):
            out.append(("entry", "program counter %s, file entry point %#x" % (pc, entry)))
    except Exception as ex:
        out.append(("entry-exc:%s@%s" % exc_sig(ex), "reading the program counter raised %r" % (ex,)))
    if check_fetch and loads and loads[0][2] >= 8:
        va, off, fsz, msz = loads[0]
        for a in (va, va + 1, va + fsz - 2):
            try:
                i = task.read_instruction(a)
            except Exception as ex:
                out.append(("fetch-exc:%s@%s" % exc_sig(ex), "read_instruction(%#x) raised %r" % (a, ex)))
                continue
            if i is None or not hasattr(i, "bytes"):
                continue
            fo = off + (a - va)
            room = fsz - (a - va)
            want_b = (blob[fo:fo + min(room, len(i.bytes))] + b"\0" * len(i.bytes))[:len(i.bytes)]
            if a + len(i.bytes) > va + msz:
                continue   # runs off the segment: what lies there is another mapping's business
            if bytes(i.bytes) != want_b:
                out.append(("fetch", "read_instruction(%#x).bytes = %s, file has %s" % (a, bytes(i.bytes).hex(), blob[fo:fo + len(i.bytes)].hex())))
    return out


def elf_unit(args):
    name, machine, cls, msb, tier = args
    from amoco.config import conf
    import amoco
    fails = []
    n = 0
    for ps in PAGESIZES:
        conf.System.pagesize = ps
        for lab, segs in geometries(tier):
            n += 1
            blob, desc = build_elf(machine, cls, msb, segs)
            cdesc = {"kind": "elf", "machine": name, "geometry": lab, "pagesize": ps}
            try:
                task = amoco.load_program(blob)
            except Exception as ex:
                fails.append(Failure(("elf", name, "load-exc:%s@%s" % exc_sig(ex)), "%s %s pagesize %d: load_program raised %r" % (name, lab, ps, ex), cdesc).to_json())
                continue
            if task is None:
                if any(p["p_offset"] < (p["p_vaddr"] % ps) for p in desc["phdrs"]):
                    # rejected, and the page holding a segment start would begin before the file: not a loadable image at
                    # this page size (a paging loader needs p_offset >= p_vaddr mod pagesize); outside the quantifier
                    continue
                fails.append(Failure(("elf", name, "no-task"), "%s %s pagesize %d: load_program returned None" % (name, lab, ps), cdesc).to_json())
                continue
            loads = [(p["p_vaddr"], p["p_offset"], p["p_filesz"], p["p_memsz"]) for p in desc["phdrs"]]
            for what, detail in check_image(task, blob, loads, desc["ehdr"]["e_entry"], name, cdesc):
                g = lab.split("/")
                fails.append(Failure(("elf", name if what.startswith(("load", "entry", "fetch")) else "any", g[0], g[1] if len(g) > 1 else "-", what),
                                     "%s ELF, geometry %s, pagesize %d: %s" % (name, lab, ps, detail), cdesc, rank=len(segs)).to_json())
    conf.System.pagesize = 4096
    return fails, n


def other_unit(kind):
    import amoco
    from amoco.config import conf
    conf.System.pagesize = 4096
    fails = []
    n = 0

    def F(sig, what, cdesc):
        fails.append(Failure(sig, what, cdesc).to_json())
    if kind == "pe":
        for plus in (False, True):
            for nsec, imp in [(1, None), (2, None), (3, None)] + [(ns, i) for ns in (2, 3) for i in sorted(c14.IMPORT_MENUS)]:
                blob = c14.pe_build(plus, nsec, 16, 1, 0, imp)
                ref = c14.pe_read(blob)
                lab = "PE32%s/%dsec%s" % ("+" if plus else "", nsec, "/imports:" + imp if imp else "")
                cdesc = {"kind": "pe", "label": lab}
                slots = dict((a, (8 if plus else 4, nm)) for a, nm in c14.pe_read_imports(blob).items())
                n += 1
                try:
                    task = amoco.load_program(blob)
                    if task is None:
                        F(("pe", lab.split("/")[0], "no-task"), "%s: load_program returned None" % lab, cdesc)
                        continue
                    base = ref["Opt"]["ImageBase"]
                    loads = []
                    for s in ref["secs"]:
                        fsz = min(s["SizeOfRawData"], s["VirtualSize"])
                        loads.append((base + s["RVA"], s["PointerToRawData"], fsz, s["VirtualSize"]))
                    for what, detail in check_image(task, blob, loads, base + ref["Opt"]["AddressOfEntryPoint"], lab, cdesc, slots=slots):
                        F(("pe", lab.split("/")[0], what), "%s: %s" % (lab, detail), cdesc)
                except Exception as ex:
                    F(("pe", lab.split("/")[0], "load-exc:%s@%s" % exc_sig(ex)), "%s: load_program raised %r" % (lab, ex), cdesc)
    elif kind == "dynelf":
        for cls in (32, 64):
            for rela in ((False, True) if cls == 32 else (True,)):
                for nsyms, relsyms in ((4, [1, 2, 3]), (320, [1, 255, 256, 257, 300, 319]), (70000 if cls == 64 else 600, [1, 511, 512, 599])):
                    lab = "ELF%d/%s/%dsyms" % (cls, "rela" if rela else "rel", nsyms)
                    cdesc = {"kind": "dynelf", "label": lab}
                    n += 1
                    try:
                        blob, load, entry, slots = build_dyn_elf(cls, nsyms, relsyms, rela)
                        task = amoco.load_program(blob)
                        if task is None:
                            F(("dynelf", "no-task"), "%s: load_program returned None" % lab, cdesc)
                            continue
                        sl = dict((a, (cls // 8, nm)) for a, nm in slots.items())
                        for what, detail in check_image(task, blob, [load], entry, lab, cdesc, check_fetch=False, slots=sl):
                            F(("dynelf", "ELF%d" % cls, what), "%s: %s" % (lab, detail), cdesc)
                    except Exception as ex:
                        F(("dynelf", "load-exc:%s@%s" % exc_sig(ex)), "%s: load_program raised %r" % (lab, ex), cdesc)
    elif kind == "macho":
        for ns, lay in ((1, "plain"), (2, "plain"), (1, "zerofill"), (2, "zerofill")):
            blob, d = c14.macho_build(True, ns, 1, lay)
            lab = "MachO64/%dsect/%s" % (ns, lay)
            cdesc = {"kind": "macho", "label": lab}
            n += 1
            try:
                task = amoco.load_program(blob)
                if task is None:
                    F(("macho", "no-task"), "%s: load_program returned None" % lab, cdesc)
                    continue
                loads = [(d["vmaddr"], 0, d["filesize"], d["vmsize"])]
                if lay == "zerofill":
                    # the segment without file content (only zero-fill sections) reads as zero
                    loads.append((d["vmaddr"] + 0x3000, 0, 0, 0x1000))
                for what, detail in check_image(task, blob, loads, d["entry"], lab, cdesc, check_fetch=False):
                    F(("macho", what), "%s: %s" % (lab, detail), cdesc)
            except Exception as ex:
                F(("macho", "load-exc:%s@%s" % exc_sig(ex)), "%s: load_program raised %r" % (lab, ex), cdesc)
    elif kind == "records":
        from amoco.arch.x86 import cpu_x86
        data1, data2 = fill(0x20, 3), fill(0x10, 5)
        hexf = b"\n".join([c14.hexline(4, 0, (0x0800).to_bytes(2, "big")), c14.hexline(0, 0x100, data1), c14.hexline(0, 0x200, data2),
                           c14.hexline(5, 0, (0x08000100).to_bytes(4, "big")), c14.hexline(1, 0, b"")]) + b"\n"
        srec = b"\n".join([c14.srecline(0, 0, b"HDR"), c14.srecline(3, 0x08000100, data1), c14.srecline(3, 0x08000200, data2),
                           c14.srecline(7, 0x08000100, b"")]) + b"\n"
        raw = fill(0x40, 9)
        for lab, blob, loads, entry in (("hex", hexf, [(0x08000100, None, data1), (0x08000200, None, data2)], 0x08000100),
                                        ("srec", srec, [(0x08000100, None, data1), (0x08000200, None, data2)], 0x08000100),
                                        ("raw", raw, [(0, None, raw)], 0)):
            cdesc = {"kind": "records", "label": lab}
            n += 1
            try:
                task = amoco.load_program(blob, cpu=cpu_x86)
                if task is None:
                    F(("records", lab, "no-task"), "%s: load_program returned None" % lab, cdesc)
                    continue
                for va, _, data in loads:
                    got = flat(task.state.mmap.read(va, len(data)))
                    if got != list(data):
                        F(("records", lab, "content"), "%s: bytes at %#x read %r..., records encode %r..." % (lab, va, got[:6], list(data[:6])), cdesc)
                pc = task.state(cpu_x86.eip)
                if not (hasattr(pc, "v") and pc.v == entry):
                    F(("records", lab, "entry"), "%s: program counter %s, start record says %#x" % (lab, pc, entry), cdesc)
                # relocation of a raw image (twice: from 0 and from a non-zero base): the image follows, pc = new base
                if hasattr(task, "relocate"):
                    lowest = min(va for va, _, _ in loads)
                    for newbase in (0x1000, 0x4000):
                        task.relocate(newbase)
                        for va, _, data in loads:
                            got = flat(task.state.mmap.read(newbase + (va - lowest), len(data)))
                            if got != list(data):
                                F(("records", lab, "relocate-content"), "%s: after relocate(%#x) the bytes recorded at %#x are not at %#x (read %r...)" % (
                                    lab, newbase, va, newbase + (va - lowest), got[:6]), cdesc)
                                break
                        pc = task.state(cpu_x86.eip)
                        if not (hasattr(pc, "v") and pc.v == newbase):
                            F(("records", lab, "relocate-entry"), "%s: after relocate(%#x) the program counter is %s" % (lab, newbase, pc), cdesc)
            except Exception as ex:
                F(("records", lab, "load-exc:%s@%s" % exc_sig(ex)), "%s: load_program raised %r" % (lab, ex), cdesc)
        # a raw task built from a format object whose data stream was already read from: the image is the whole file
        try:
            from amoco.system.core import read_program
            from amoco.system.raw import RawExec
            for consumed in (0, 2, len(raw)):
                n += 1
                pobj = read_program(raw)
                pobj.dataio.read(consumed)
                t2 = RawExec(pobj, cpu_x86)
                got = flat(t2.state.mmap.read(0, len(raw)))
                if got != list(raw):
                    F(("records", "raw", "stream-position"), "raw task built after reading %d bytes from the data stream: image at 0 reads %r..., file %r..." % (
                        consumed, got[:6], list(raw[:6])), {"kind": "records", "label": "raw-after-read"})
                    break
        except Exception as ex:
            F(("records", "raw", "stream-exc:%s@%s" % exc_sig(ex)), "raw task after reading the data stream raised %r" % (ex,), {"kind": "records", "label": "raw-after-read"})
    elif kind == "samples":
        for path in c14.sample_files():
            blob = open(path, "rb").read()
            name = os.path.relpath(path, c14.SAMPLES)
            cdesc = {"kind": "sample", "file": name}
            if blob[:4] == b"\x7fELF":
                ref = EI.read(blob)
                loads = [(p["p_vaddr"], p["p_offset"], p["p_filesz"], p["p_memsz"]) for p in ref["phdrs"] if p["p_type"] == 1]
                if not loads or ref["ehdr"]["e_type"] == 1:
                    continue
                n += 1
                try:
                    task = amoco.load_program(path)
                    if task is None:
                        continue
                    # dynamic relocation slots are allowed to hold external symbols: compare only constant bytes
                    mm = task.state.mmap
                    for (va, off, fsz, msz) in loads:
                        got = flat(mm.read(va, msz))
                        want = list(blob[off:off + fsz]) + [0] * (msz - fsz)
                        bad = [j for j in range(min(len(got), len(want))) if isinstance(got[j], int) and got[j] != want[j]]
                        if bad or len(got) != len(want):
                            k = bad[0] if bad else min(len(got), len(want))
                            where = "file-backed" if k < fsz else "zero-tail"
                            F(("sample", where), "%s: segment at %#x: byte %#x reads %r, expected %#04x (%s part)" % (
                                name, va, va + k, got[k] if k < len(got) else "<missing>", want[k] if k < len(want) else 0, where), cdesc)
                            break
                    pc = task.state(task.cpu.PC())
                    if not (hasattr(pc, "v") and pc.v == ref["ehdr"]["e_entry"]):
                        F(("sample", "entry"), "%s: program counter %s, e_entry %#x" % (name, pc, ref["ehdr"]["e_entry"]), cdesc)
                except Exception as ex:
                    F(("sample", "load-exc:%s@%s" % exc_sig(ex)), "%s: load_program raised %r" % (name, ex), cdesc)
    return fails, n


def run(tier, seed):
    rep = Report("C15", "model_checking")
    jobs = [("elf", (name, m, cls, msb, tier)) for (name, m, cls, msb) in MACHINES]
    jobs += [("other", k) for k in ("pe", "dynelf", "macho", "records", "samples")]
    jobs = core.rotate(jobs, seed)
    res = core.pmap(_dispatch, jobs, chunksize=1)
    n = 0
    for fl, k in res:
        n += k
        for f in fl:
            rep.add(Failure.from_json(f))
    rep.failures.sort(key=lambda f: (f.rank, f.sig))
    rep.coverage.update({
        "states": n, "transitions": n * 4, "traces_validated_against_impl": n,
        "evaluations": n * 4, "distinct_nontrivial": n,
        "rule": "for each of %d ELF machines with a loader x %d segment geometries (aligned, unaligned-congruent, sharing a page, adjacent; "
                "filesz == memsz, bss tail, filesz 0) x page sizes %r: load_program on an image written by an independent writer (non-zero "
                "bytes follow the segments in the file); every byte of every PT_LOAD segment must equal the file byte, [filesz,memsz) must read "
                "as zero, PC == e_entry, read_instruction bytes == file bytes; generated PE32/PE32+ and Mach-O images, HEX/SREC/raw inputs, "
                "and the shipped ELF samples (constant bytes only: relocation slots may hold external symbols)" % (len(MACHINES), len(geometries(tier)), PAGESIZES),
        "samples": [{"machine": "x86-64", "geometry": "two-share-page/bss", "pagesize": 256}],
    })
    return rep


def _dispatch(job):
    try:
        if job[0] == "elf":
            return elf_unit(job[1])
        return other_unit(job[1])
    except Exception as ex:
        return [Failure(("harness", str(job[0]), type(ex).__name__), "harness error %r in %r" % (ex, job), {"job": str(job)}).to_json()], 0


def replay(case):
    k = case.get("kind")
    if k == "elf":
        m = [x for x in MACHINES if x[0] == case["machine"]][0]
        fl, _ = elf_unit(m + ("thorough",))
        return [Failure.from_json(f) for f in fl if Failure.from_json(f).case.get("geometry") == case["geometry"]
                and Failure.from_json(f).case.get("pagesize") == case["pagesize"]]
    fl, _ = other_unit({"pe": "pe", "dynelf": "dynelf", "macho": "macho", "records": "records", "sample": "samples"}[k])
    return [Failure.from_json(f) for f in fl]
