"""C07 -- x86/x64 instruction boundaries agree with binutils and LLVM.
Spec-driven enumeration of 15-byte candidates per mode; reference lengths and
branch targets come from a vendored table generated with objdump and
llvm-objdump (extended on the fly when the tools are present and the tree
produces candidates that are not in the table)."""
import json, itertools, os
from amc import core, isas, x86ref
from amc.core import Failure, Report, exc_sig
from amc.gen import specwords

MODES = [("x86", 32), ("x64", 64)]


def candidates_unit(args):
    isa, mode, lo, hi, tier = args
    cpu = isas.load(isa)
    d = cpu.disassemble
    S = isas.flatten(d.specs[d.iset()])
    out = []
    seen = set()
    for s in S[lo:hi]:
        for b in itertools.chain(specwords.cases_for_spec(isa, s, 1, d.maxlen, tier), specwords.prefixed_modrm_cases(isa, s, tier), specwords.adrsize_cases(isa, s, tier)):
            if not b:
                continue
            c = (b + b"\x00" * 15)[:15]
            if c in seen:
                continue
            seen.add(c)
            out.append(c.hex())
    return out


def sweep_candidates():
    out = []
    for k in range(65536):
        two = bytes([k >> 8, k & 0xFF])
        for tail in (b"\x00" * 13, b"\xff" * 13, specwords.INC[:13]):
            out.append((two + tail).hex())
    return out


def branch_candidates(isa):
    """relative jmp/jcc/call/loop opcodes x boundary displacements x prefixes"""
    import struct
    out = []
    ops8 = [bytes([0xEB])] + [bytes([0x70 + k]) for k in range(16)] + [bytes([0xE0 + k]) for k in range(4)]
    ops32 = [bytes([0xE9]), bytes([0xE8])] + [bytes([0x0F, 0x80 + k]) for k in range(16)]
    pf = [b"", b"\x66", b"\x67", b"\xf2", b"\xf3", b"\x2e", b"\x3e"] + ([b"\x48", b"\x41"] if isa == "x64" else [])
    for p in pf:
        for o in ops8:
            for d in (0, 1, -1, 0x7F, -0x80, 0x10):
                out.append(((p + o + struct.pack("<b", d)) + b"\x00" * 15)[:15].hex())
        for o in ops32:
            for d in (0, 1, -1, 0x7FFFFFFF, -0x80000000, 0x100, -0x1000):
                out.append(((p + o + struct.pack("<i", d)) + b"\x00" * 15)[:15].hex())
    return out


def enumerate_candidates(isa, tier):
    cpu = isas.load(isa)
    n = len(isas.specs_of(cpu, {}))
    jobs = [(isa, 32 if isa == "x86" else 64, lo, min(n, lo + 32), tier) for lo in range(0, n, 32)]
    res = core.pmap(candidates_unit, jobs)
    seen = set()
    out = []
    for r in res:
        for h in r:
            if h not in seen:
                seen.add(h)
                out.append(h)
    for h in branch_candidates(isa):
        if h not in seen:
            seen.add(h)
            out.append(h)
    if tier == "thorough":
        for h in sweep_candidates():
            if h not in seen:
                seen.add(h)
                out.append(h)
    return out


def ref_chunk(args):
    mode, hexes = args
    rows = x86ref.run_refs([bytes.fromhex(h) for h in hexes], mode)
    out = {}
    bits = mode
    for k, (h, row) in enumerate(zip(hexes, rows)):
        ok, ln, tgt, why = x86ref.summarize(row)
        if not ok:
            out[h] = [0, why]
            continue
        disp = None
        if tgt is not None:
            disp = (tgt - (k * x86ref.SLOT + ln)) & ((1 << bits) - 1)
            if disp >> (bits - 1):
                disp -= 1 << bits
        out[h] = [1, ln, disp, row["obj"][1]]
    return out


def extend_table(table, missing, mode):
    CH = 4000
    jobs = [(mode, missing[i:i + CH]) for i in range(0, len(missing), CH)]
    for part in core.pmap(ref_chunk, jobs):
        table.update(part)


def check_chunk(args):
    isa, mode, rows = args
    cpu = isas.load(isa)
    d = cpu.disassemble
    fails = []
    stats = {"compared": 0, "branches": 0, "amoco_none": 0, "amoco_exc": 0}
    for h, ref in rows:
        b = bytes.fromhex(h)
        setattr(d, "_disassembler__i", None)
        try:
            i = d(b)
        except Exception:
            setattr(d, "_disassembler__i", None)
            stats["amoco_exc"] += 1
            continue
        if i is None:
            stats["amoco_none"] += 1
            continue
        stats["compared"] += 1
        ln, disp, mn = ref[1], ref[2], ref[3]
        hook = getattr(i.spec.hook, "__name__", "?")
        pfx = "".join("%02x" % x for x in b[:4] if x in (0x66, 0x67, 0xF2, 0xF3, 0xF0, 0x2E, 0x36, 0x3E, 0x26, 0x64, 0x65)) or "-"
        if i.length != ln:
            fails.append(Failure((isa, "length", hook, str(i.mnemonic)),
                                 "%s-bit %s: amoco decodes %s (%d bytes: %s), objdump and llvm-objdump agree on %d bytes (%s)" % (
                                     mode, h, i.mnemonic, i.length, bytes(i.bytes).hex(), ln, mn),
                                 {"isa": isa, "bytes": h, "ref": ref}, rank=i.length).to_json())
            continue
        if disp is not None:
            stats["branches"] += 1
            ops = i.operands
            if len(ops) >= 1 and getattr(ops[-1 if i.mnemonic.startswith("LOOP") else 0], "_is_cst", False):
                v = ops[0].value
                if v != disp:
                    fails.append(Failure((isa, "displacement", hook, str(i.mnemonic)),
                                         "%s-bit %s: amoco %s displacement %d, references jump to next%+d (%s)" % (mode, h, i.mnemonic, v, disp, mn),
                                         {"isa": isa, "bytes": h, "ref": ref}, rank=i.length).to_json())
    return fails, stats


def run(tier, seed):
    rep = Report("C07", "model_checking")
    tot = {"compared": 0, "branches": 0, "amoco_none": 0, "amoco_exc": 0}
    info = []
    have_tools = x86ref.tools_available()
    for isa, mode in MODES:
        cands = enumerate_candidates(isa, tier)
        path = x86ref.table_path(core.VERIF, mode, "quick")
        table = x86ref.load_table(path)
        vendored = len(table)
        if tier == "thorough":
            t2 = x86ref.load_table(x86ref.table_path(core.VERIF, mode, "thorough"))
            table.update(t2)
        missing = [h for h in cands if h not in table]
        computed = 0
        if missing and have_tools:
            extend_table(table, missing, mode)
            computed = len(missing)
            missing = [h for h in cands if h not in table]
        elig = [(h, table[h]) for h in cands if h in table and table[h][0] == 1]
        reasons = {}
        for h in cands:
            if h in table and table[h][0] == 0:
                reasons[table[h][1]] = reasons.get(table[h][1], 0) + 1
        elig = core.rotate(elig, seed)
        CH = 3000
        res = core.pmap(check_chunk, [(isa, mode, elig[i:i + CH]) for i in range(0, len(elig), CH)])
        for fl, st in res:
            for k in tot:
                tot[k] += st[k]
            for f in fl:
                rep.add(Failure.from_json(f))
        info.append({"mode": mode, "candidates": len(cands), "vendored_rows": vendored, "rows_computed_now": computed,
                     "not_in_table_and_no_tools": len(missing), "eligible": len(elig), "ineligible": reasons})
        if missing and not have_tools and len(missing) > len(cands) // 2:
            rep.harness_errors.append("%d-bit: %d of %d candidates are not in the vendored table and the reference tools are not installed" % (mode, len(missing), len(cands)))
    rep.failures.sort(key=lambda f: (f.sig, f.rank, f.case["bytes"]))
    rep.coverage.update({
        "states": sum(i["candidates"] for i in info), "transitions": tot["compared"], "traces_validated_against_impl": tot["compared"],
        "evaluations": tot["compared"], "distinct_nontrivial": tot["compared"],
        "rule": "every 15-byte candidate of the spec-driven x86/x64 enumeration (every shipped spec: fields walked, Mod x RM product, SIB menu, "
                "prefix menu, tails%s), in 32- and 64-bit mode; a row is eligible when objdump (binutils) and llvm-objdump decode the instruction "
                "at the slot start as the same valid instruction length (no '(bad)'/'<unknown>'); for eligible rows that amoco decodes at all its "
                "length must equal the reference length and, for relative jmp/jcc/call/loop, its displacement must equal target - next address; "
                "non-trivial = eligible rows amoco decoded" % ("; plus all 65536 two-byte prefixes x 3 tails" if tier == "thorough" else ""),
        "per_mode": info, "branch_rows": tot["branches"], "amoco_no_decode": tot["amoco_none"], "amoco_raises": tot["amoco_exc"],
        "reference_tools_present": have_tools,
        "samples": [{"bytes": "e9fbffffff00000000000000000000", "ref": [1, 5, -5, "jmp"]}],
    })
    rep.assumptions = ["reference versions: binutils 2.40, LLVM 14 (table vendored under /verif/tables; rows for candidates a modified tree newly "
                       "produces are computed on the fly when the tools are installed, otherwise skipped and counted)"]
    return rep


def replay(case):
    fl, st = check_chunk((case["isa"], 32 if case["isa"] == "x86" else 64, [(case["bytes"], case["ref"])]))
    return [Failure.from_json(f) for f in fl]
