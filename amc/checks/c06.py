"""C06 -- instruction semantics match the architecture.
RISC-V RV32I/RV64I against a reference interpreter written from the manual;
x86-64 (and IA-32 forms with the same encoding) against this CPU through the
native runner /verif/native/x86run."""
import json, os, struct, subprocess
from amc import core, isas
from amc.core import Failure, Report, exc_sig
from amc.ref import rv as RV

# =================================================================== RISC-V
RV_REGS = (0, 1, 2)


def rv_words(xlen):
    """(mnemonic, word) for every base opcode with rd, rs1, rs2 in {x0,x1,x2} and boundary immediates"""
    W = []
    imm12 = [0, 1, -1, 2047, -2048, 4, -4, 0x555, 0x2AA - 4096 // 2]
    for rd in RV_REGS:
        for im in (0, 1, 0xFFFFF, 0x80000, 0x7FFFF, 0x12345):
            W.append(("LUI", RV.U(0x37, rd, im)))
            W.append(("AUIPC", RV.U(0x17, rd, im)))
        for im in (0, 4, -4, 8, 0xFFFFE, -0x100000, 0x800, 0x7FE, 2):
            W.append(("JAL", RV.J(0x6F, rd, im)))
        for rs1 in RV_REGS:
            for im in imm12:
                W.append(("JALR", RV.I(0x67, 0, rd, rs1, im)))
            for f3, nm in ((0, "ADDI"), (2, "SLTI"), (3, "SLTIU"), (4, "XORI"), (6, "ORI"), (7, "ANDI")):
                for im in imm12:
                    W.append((nm, RV.I(0x13, f3, rd, rs1, im)))
            for sh in range(xlen):
                W.append(("SLLI", RV.I(0x13, 1, rd, rs1, sh)))
                W.append(("SRLI", RV.I(0x13, 5, rd, rs1, sh)))
                W.append(("SRAI", RV.I(0x13, 5, rd, rs1, sh | 0x400)))
            for f3, nm in ((0, "LB"), (1, "LH"), (2, "LW"), (4, "LBU"), (5, "LHU")) + (((3, "LD"), (6, "LWU")) if xlen == 64 else ()):
                for im in (0, 1, 3, -1, -8, 8, 2047, -2048):
                    W.append((nm, RV.I(0x03, f3, rd, rs1, im)))
            if xlen == 64:
                for im in imm12:
                    W.append(("ADDIW", RV.I(0x1B, 0, rd, rs1, im)))
                for sh in range(32):
                    W.append(("SLLIW", RV.I(0x1B, 1, rd, rs1, sh)))
                    W.append(("SRLIW", RV.I(0x1B, 5, rd, rs1, sh)))
                    W.append(("SRAIW", RV.I(0x1B, 5, rd, rs1, sh | 0x400)))
            for rs2 in RV_REGS:
                for (f3, f7), nm in (((0, 0), "ADD"), ((0, 0x20), "SUB"), ((1, 0), "SLL"), ((2, 0), "SLT"), ((3, 0), "SLTU"), ((4, 0), "XOR"),
                                     ((5, 0), "SRL"), ((5, 0x20), "SRA"), ((6, 0), "OR"), ((7, 0), "AND")):
                    W.append((nm, RV.R(0x33, f3, f7, rd, rs1, rs2)))
                if xlen == 64:
                    for (f3, f7), nm in (((0, 0), "ADDW"), ((0, 0x20), "SUBW"), ((1, 0), "SLLW"), ((5, 0), "SRLW"), ((5, 0x20), "SRAW")):
                        W.append((nm, RV.R(0x3B, f3, f7, rd, rs1, rs2)))
    for rs1 in RV_REGS:
        for rs2 in RV_REGS:
            for f3, nm in ((0, "BEQ"), (1, "BNE"), (4, "BLT"), (5, "BGE"), (6, "BLTU"), (7, "BGEU")):
                for im in (0, 4, -4, 8, 4094, -4096, 0x7FE):
                    W.append((nm, RV.B(0x63, f3, rs1, rs2, im)))
            for f3, nm in ((0, "SB"), (1, "SH"), (2, "SW")) + (((3, "SD"),) if xlen == 64 else ()):
                for im in (0, 1, 3, -1, -8, 8, 2047, -2048):
                    W.append((nm, RV.S(0x23, f3, rs1, rs2, im)))
    seen, out = set(), []
    for nm, w in W:
        if w not in seen:
            seen.add(w)
            out.append((nm, w & 0xFFFFFFFF))
    return out


def rv_states(xlen):
    M = (1 << xlen) - 1
    base = 0x10000
    vals = [0, 1, M, 1 << (xlen - 1), (1 << (xlen - 1)) - 1, 0x55555555 & M, base + 0x800, base + 0x804, base + 0x7FF, 31, 32, 33]
    S = []
    for a in vals:
        for b in vals:
            S.append((a, b))
    pcs = [0x1000, 0, 0x7FFFFFFC, M & ~3]
    return S, pcs, base


def rv_membyte(a):
    return (a * 31 + 9) & 0xFF


def rv_unit(args):
    isa, xlen, lo, hi, tier = args
    cpu = isas.load(isa)
    from amoco.cas.mapper import mapper
    from amoco.cas.expressions import cst, mem
    d = cpu.disassemble
    words = rv_words(xlen)[lo:hi]
    S, pcs, base = rv_states(xlen)
    if tier == "quick":
        S = [s for k, s in enumerate(S) if k % 3 == 0 or s[0] == s[1]]
    M = (1 << xlen) - 1
    fails = []
    stats = {"vectors": 0, "compared": 0, "skipped": 0, "words": len(words)}
    window = dict((a, rv_membyte(a)) for a in range(base, base + 0x1000))
    winbytes = bytes(rv_membyte(a) for a in range(base, base + 0x1000))
    regs = cpu.x
    pcreg = cpu.pc
    for nm, w in words:
        bs = struct.pack("<I", w)
        setattr(d, "_disassembler__i", None)
        try:
            ins = d(bs)
        except Exception:
            ins = None
        if ins is None:
            stats["skipped"] += 1
            fails.append(Failure((isa, "decode", nm), "%s: base instruction %s (word %08x) is not decoded" % (isa, nm, w), {"isa": isa, "word": "%08x" % w}).to_json())
            continue
        bad_for_word = False
        for pi, pc0 in enumerate(pcs if nm in ("AUIPC", "JAL", "JALR", "BEQ", "BNE", "BLT", "BGE", "BLTU", "BGEU") else pcs[:1]):
            for (a, b) in S:
                if bad_for_word:
                    break
                stats["vectors"] += 1
                x = [0, a, b] + [0] * 29
                ref = RV.Machine(xlen, x, pc0, window)
                try:
                    rn = ref.step(w)
                except KeyError:
                    stats["skipped"] += 1
                    continue            # access outside the mapped window
                if rn is None:
                    stats["skipped"] += 1
                    continue
                m = mapper()
                m[regs[1]] = cst(a, xlen)
                m[regs[2]] = cst(b, xlen)
                m[pcreg] = cst(pc0, xlen)
                m.mmap.write(base, winbytes)
                ins.address = cst(pc0, xlen)
                try:
                    ins(m)
                except Exception as ex:
                    stats["skipped"] += 1
                    continue            # raising semantics are C17's business
                stats["compared"] += 1
                diffs = []
                for k in (1, 2):
                    v = m(regs[k])
                    if getattr(v, "_is_cst", False) and type(v).__name__ == "cst" and v.v != ref.x[k]:
                        diffs.append(("dest", "x%d = %#x, reference %#x" % (k, v.v, ref.x[k])))
                v = m(pcreg)
                if type(v).__name__ == "cst" and v.v != ref.pc:
                    diffs.append(("pc", "pc = %#x, reference %#x" % (v.v, ref.pc)))
                for addr, byte in ref.touched.items():
                    try:
                        got = m(mem(cst(addr, xlen), 8))
                    except Exception:
                        continue
                    if type(got).__name__ == "cst" and got.v != byte:
                        diffs.append(("memory", "byte at %#x = %#x, reference %#x" % (addr, got.v, byte)))
                        break
                if not ref.touched and nm in ("SB", "SH", "SW", "SD"):
                    pass
                for what, detail in diffs[:1]:
                    fails.append(Failure((isa, nm, what), "%s %s (word %08x) from x1=%#x x2=%#x pc=%#x: %s" % (isa, nm, w, a, b, pc0, detail),
                                         {"isa": isa, "word": "%08x" % w, "x1": a, "x2": b, "pc": pc0}, rank=1).to_json())
                    bad_for_word = True
    return fails, stats


# =================================================================== driver
def run(tier, seed):
    rep = Report("C06", "model_checking")
    jobs = []
    for isa, xlen in (("rv32i", 32), ("rv64i", 64)):
        n = len(rv_words(xlen))
        step = 200
        for lo in range(0, n, step):
            jobs.append(("rv", (isa, xlen, lo, min(n, lo + step), tier)))
    from amc import x86native
    xjobs, xinfo = x86native.jobs(tier)
    jobs += [("x86", j) for j in xjobs]
    jobs = core.rotate(jobs, seed)
    res = core.pmap(_dispatch, jobs, chunksize=1)
    tot = {"vectors": 0, "compared": 0, "skipped": 0, "words": 0}
    xt = {"vectors": 0, "compared": 0, "cpu_faults": 0, "amoco_skipped": 0, "encodings": 0}
    for (kind, _), (fl, st) in zip(jobs, res):
        T = tot if kind == "rv" else xt
        for k in T:
            T[k] += st.get(k, 0)
        for f in fl:
            rep.add(Failure.from_json(f))
    if xinfo.get("error"):
        rep.harness_errors.append(xinfo["error"])
    rep.failures.sort(key=lambda f: (f.sig, f.rank))
    rep.coverage.update({
        "states": tot["words"] + xt["encodings"], "transitions": tot["vectors"] + xt["vectors"],
        "traces_validated_against_impl": tot["compared"] + xt["compared"],
        "evaluations": tot["vectors"] + xt["vectors"], "distinct_nontrivial": tot["compared"] + xt["compared"],
        "rule": "RISC-V: every RV32I/RV64I base opcode (encoded from the manual's tables) with rd, rs1, rs2 over {x0,x1,x2}, boundary immediates, every "
                "shift amount, load/store sizes and offsets, branches; x1,x2 over a 12-value boundary set (all pairs; quick: a third), 4 pc values "
                "for pc-relative instructions; destination registers, pc and stored bytes versus the reference interpreter. "
                "x86-64: encodings of the user-mode integer subset taken from amoco's own spec enumeration, executed natively on this CPU from "
                "pointer and boundary-value register states; all 16 GPRs, defined status flags and touched scratch memory compared",
        "riscv": tot, "x86": xt, "x86_info": xinfo,
        "samples": [{"isa": "rv32i", "word": "%08x" % RV.R(0x33, 5, 0x20, 1, 1, 2), "x1": 0x80000000, "x2": 31}],
    })
    rep.assumptions = ["x86 oracle = this CPU; architecturally undefined flags/destinations are masked; vectors that fault on the CPU are skipped",
                       "symbolic (non-constant) amoco results are accepted"]
    return rep


def _dispatch(job):
    kind, payload = job
    try:
        if kind == "rv":
            return rv_unit(payload)
        from amc import x86native
        return x86native.unit(payload)
    except Exception as ex:
        import traceback
        return [Failure(("harness", kind, type(ex).__name__), "harness error %r: %s" % (ex, traceback.format_exc()[-300:]), {"job": str(payload)[:100]}).to_json()], {}


def replay(case):
    if "word" in case:
        isa = case["isa"]
        xlen = 32 if isa == "rv32i" else 64
        W = rv_words(xlen)
        idx = [k for k, (nm, w) in enumerate(W) if "%08x" % w == case["word"]]
        if not idx:
            return []
        fl, st = rv_unit((isa, xlen, idx[0], idx[0] + 1, "thorough"))
        return [Failure.from_json(f) for f in fl]
    from amc import x86native
    return x86native.replay(case)
