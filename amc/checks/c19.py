"""C19 -- merging two maps over-approximates both.
Bounded exhaustive enumeration of pairs of small maps; symbolic per-location
membership (independent walker) and concrete-state consequence."""
import json, itertools
from amc import core
from amc.core import Failure, Report, exc_sig
from amc.ref import bv

P, Q = 0x1000, 0x2000
LOCS = ["r1", "r2", "f", "Mp", "Mp4", "Mq", "M8p1", "Mq4", "Mv4", "p"]
VALS = ["cst", "reg", "inc", "tst", "mem", "top", "vecw"]
RED_LOCS = ["r1", "Mp", "Mq", "M8p1", "Mv4"]
RED_VALS = ["cst", "reg", "inc"]
CONDS = [None, "r1==0", "r2!=0"]
CONFIGS = [(False, 0), (True, 0), (False, 4), (False, 100)]

VALUATIONS = [{"r1": a, "r2": b, "r3": c, "p": P, "q": Q, "f": fl}
              for (a, b, c, fl) in [(0, 0, 5, 0), (0, 7, 1, 1), (3, 0, 2, 0), (0x80000000, 1, 0xFFFFFFFF, 1),
                                    (0, 0xFFFFFFFF, 9, 0), (1, 2, 3, 1)]]


def initmem(addr, n):
    return bytes(((addr + i) * 13 + 5) & 0xFF for i in range(n))


def env_of(v):
    return bv.Env(v, initmem)


def mkregs():
    from amoco.cas import expressions as E
    R = {n: E.reg(n, 32) for n in ("r1", "r2", "r3", "p", "q")}
    with E.is_reg_flags:
        R["f"] = E.reg("f", 32)
    return R


def mkloc(R, name):
    from amoco.cas import expressions as E
    if name in ("r1", "r2", "f", "p"):
        # ("p": a map that redefines the base register of the other map's memory locations)
        return R[name], 32
    if name == "Mp":
        return E.mem(R["p"], 32), 32
    if name == "Mp4":
        return E.mem(R["p"], 32, disp=4), 32
    if name == "Mq":
        return E.mem(R["q"], 32), 32
    if name == "M8p1":
        return E.mem(R["p"], 8, disp=1), 8
    if name == "Mq4":
        return E.mem(R["q"], 32, disp=4), 32
    if name == "Mv4":
        # a store through a pointer that is itself a merged value [p,q], with a displacement:
        # amoco writes every possible target
        return E.mem(E.vec([R["p"], R["q"]]), 32, disp=4), 32
    raise ValueError(name)


def readlocs(l):
    """the plain locations at which a write to l is observed"""
    return ["Mp4", "Mq4"] if l == "Mv4" else [l]


def mkval(R, name, size, k):
    from amoco.cas import expressions as E
    if name == "cst":
        return E.cst(0x11223344 * (k + 1), 32)[0:size] if size < 32 else E.cst((0x11223344 * (k + 1)) & 0xFFFFFFFF, 32)
    if name == "reg":
        return R["r3"][0:size] if size < 32 else R["r3"]
    if name == "inc":
        x = R["r2"] + (k + 1)
        return x[0:size] if size < 32 else x
    if name == "tst":
        x = E.tst(R["r3"] == 0, R["r1"], R["r2"] + 1)
        return x[0:size] if size < 32 else x
    if name == "mem":
        x = E.mem(R["q"], 32, disp=8)
        return x[0:size] if size < 32 else x
    if name == "top":
        return E.top(size)
    if name == "vecw":
        # a widened value (unknown, carrying hints) as left by an earlier merge(..., widening=True)
        return E.vecw(E.vec([E.cst(1, size), E.cst(2, size)]))
    raise ValueError(name)


def build_map(R, spec, k0):
    """spec = {"w": [(loc,val),...], "c": cond}"""
    from amoco.cas.mapper import mapper
    from amoco.cas import expressions as E
    m = mapper()
    for i, (l, v) in enumerate(spec["w"]):
        loc, size = mkloc(R, l)
        m[loc] = mkval(R, v, size, k0 + i)
    c = spec.get("c")
    if c == "r1==0":
        m.conds.append(R["r1"] == E.cst(0, 32))
    elif c == "r2!=0":
        m.conds.append(R["r2"] != E.cst(0, 32))
    elif c == "p==P":
        # an equality on the base register of the map's own stores: assume() rewrites those keys to absolute addresses
        m.conds.append(R["p"] == E.cst(P, 32))
    return m


def cond_ok(c, val):
    if c == "r1==0":
        return val["r1"] == 0
    if c == "r2!=0":
        return val["r2"] != 0
    if c == "p==P":
        return val["p"] == P
    return True


def alternatives(x):
    """None = 'unknown' (top/vecw/undefined); else list of alternative expressions"""
    k = type(x).__name__
    if k == "vecw" or x._is_top or not x._is_def:
        return None
    if k == "vec":
        out = []
        for a in x.l:
            s = alternatives(a)
            if s is None:
                return None
            out.extend(s)
        return out
    if contains_vec(x):
        return expand(x)
    return [x]


def contains_vec(x):
    k = type(x).__name__
    if k in ("vec", "vecw"):
        return True
    if k == "comp":
        return any(contains_vec(p) for p in x.parts.values())
    for attr in ("l", "r", "x", "tst"):
        c = getattr(x, attr, None)
        if c is not None and hasattr(c, "etype") and contains_vec(c):
            return True
    return False


def expand(x):
    """a comp whose parts are vecs (partial memory overwrite): treat as unknown-structured;
    we return None (accepted as 'unknown') only if some part is top-like, else the cartesian
    product is too implementation specific -- evaluate by walker with per-part alternatives."""
    return "structured"


def walk_alts(x, env):
    """set of possible values of x (vec nodes = choice); None = unknown"""
    k = type(x).__name__
    if k == "vecw" or x._is_top or not x._is_def:
        return None
    if k == "vec":
        s = set()
        for a in x.l:
            r = walk_alts(a, env)
            if r is None:
                return None
            s |= r
        return s
    if k == "comp":
        cur = [0]
        for (a, b) in sorted(x.parts):
            r = walk_alts(x.parts[(a, b)], env)
            if r is None:
                return None
            cur = [c | (v << a) for c in cur for v in r]
        return set(cur)
    if k == "slc" and contains_vec(x.x):
        r = walk_alts(x.x, env)
        if r is None:
            return None
        return set((v >> x.pos) & bv.mask(x.size) for v in r)
    if contains_vec(x):
        raise bv.Unknown("vec inside %s" % k)
    return set([bv.walk(x, env)])


def written_locs(m):
    return [str(l) for l, v in m]


def check_pair(args):
    """one (spec1, spec2, widening, complexity) case; returns list of failure tuples"""
    s1, s2, widening, cx = args
    from amoco.config import conf
    from amoco.cas.mapper import mapper, merge
    from amoco.cas import expressions as E
    conf.Cas.complexity = cx
    conf.Cas.noaliasing = True
    out = []
    try:
        R = mkregs()
        try:
            m1 = build_map(R, s1, 0)
            m2 = build_map(R, s2, 4)
        except Exception:
            return [], 0      # the input map itself cannot be built (e.g. a store through a pointer set to top): nothing to merge
        b1, b2 = str(m1), str(m2)
        kargs = {"widening": True} if widening else {}
        try:
            mm = merge(m1, m2, **kargs)
        except Exception as ex:
            return [(("merge-exc", "%s@%s" % exc_sig(ex), feature(s1, s2)), "merge raised %r" % (ex,))], 0
        wl1 = set(l for l, _ in s1["w"])
        wl2 = set(l for l, _ in s2["w"])
        locs1 = set(x for l in wl1 for x in readlocs(l))
        locs2 = set(x for l in wl2 for x in readlocs(l))
        nmem = 0
        # locations written by neither must not appear
        wl = set(written_locs(mm))
        allowed = set()
        for l in locs1 | locs2 | wl1 | wl2:
            loc, size = mkloc(R, l)
            allowed.add(str(loc.a) if loc._is_mem else str(loc))
        # an equality condition on a store's base register lets assume() rename that location (p+k -> P+k): the
        # per-location symbolic comparison would then ask for more than the statement; such pairs are judged by the
        # concrete consequence below only
        pcond = "p==P" in (s1.get("c"), s2.get("c"))
        # a map that redefines p and also stores through p names its own locations differently from the menu:
        # such pairs are judged by the concrete consequence only as well
        for w_ in (wl1, wl2):
            if "p" in w_ and any(x in w_ for x in ("Mp", "Mp4", "M8p1", "Mv4")):
                pcond = True
        extra = set() if pcond else (wl - allowed)
        if extra:
            out.append((("extra-location", feature(s1, s2)), "merged map writes %s, inputs write %s" % (sorted(extra), sorted(allowed))))
        for l in ([] if pcond else sorted(locs1 | locs2)):
            loc, size = mkloc(R, l)
            try:
                vm = mm[loc]
            except Exception as ex:
                out.append((("read-exc", "%s@%s" % exc_sig(ex), l), "mm[%s] raised %r" % (loc, ex)))
                continue
            if vm.size != size:
                out.append((("size", l), "mm[%s] has size %d" % (loc, vm.size)))
                continue
            for side, (m, s) in (("m1", (m1, s1)), ("m2", (m2, s2))):
                if l == "f":
                    continue  # flags: the statement allows 'unknown'
                v = m[loc]
                for val in VALUATIONS:
                    if not cond_ok(s.get("c"), val):
                        continue
                    if not (cond_ok(s1.get("c"), val) or cond_ok(s2.get("c"), val)):
                        continue
                    env = env_of(val)
                    nmem += 1
                    try:
                        alts = walk_alts(vm, env)
                        if alts is None:
                            break  # unknown: accepted
                        ev = walk_alts(v, env)
                        if ev is None:
                            # the input's own value is unknown (top / widened): only 'unknown' covers it
                            if alts is not None and not (v._is_top or not v._is_def) or (alts is not None and type(v).__name__ == "vecw"):
                                out.append((("definite-from-unknown", feature(s1, s2), lockind(l), "w" if widening else "-", "cx" if cx else "-"),
                                            "merge(%s | %s)[%s] = %s is a definite set of alternatives although %s's value %s is unknown" % (
                                                b1.replace("\n", "; "), b2.replace("\n", "; "), loc, vm, side, v)))
                            break
                    except bv.Unknown:
                        continue
                    except Exception as ex:
                        out.append((("walk-exc", type(ex).__name__, l), "walking mm[%s]=%s: %r" % (loc, vm, ex)))
                        break
                    if not ev <= alts:
                        out.append((("missing", feature(s1, s2), lockind(l), "w" if widening else "-", "cx" if cx else "-"),
                                    "merge(%s | %s)[%s] = %s does not cover %s's value %s under %r: %r not in %r" % (
                                        b1.replace("\n", "; "), b2.replace("\n", "; "), loc, vm, side, v, val, sorted(ev), sorted(alts))))
                        break
        # ---- concrete consequence
        for val in VALUATIONS[:3]:
            C = mapper()
            for n in ("r1", "r2", "r3", "p", "q", "f"):
                C[R[n]] = E.cst(val[n], 32)
            res = {}
            for name, m in (("mm", mm), ("m1", m1), ("m2", m2)):
                try:
                    res[name] = C >> m
                except ValueError:
                    res[name] = None   # a path condition is false in C (by design)
                except Exception as ex:
                    res[name] = None
                    if name == "mm":
                        out.append((("compose-exc", "%s@%s" % exc_sig(ex), feature(s1, s2)), "C >> merged raised %r" % (ex,)))
            if res["mm"] is None:
                continue
            for l in sorted(locs1 | locs2):
                if l == "f":
                    continue
                loc, size = mkloc(R, l)
                try:
                    cm = walk_alts(res["mm"](loc), env_of(val))
                except Exception:
                    continue
                if cm is None:
                    continue
                for side in ("m1", "m2"):
                    if res[side] is None:
                        continue
                    try:
                        cv = walk_alts(res[side](loc), env_of(val))
                    except Exception:
                        continue
                    nmem += 1
                    if cv is not None and not cv <= cm:
                        out.append((("concrete-missing", feature(s1, s2), lockind(l), "w" if widening else "-", "cx" if cx else "-"),
                                    "(C>>merge)[%s] candidates %r do not contain (C>>%s)[%s] = %r; C=%r maps %s | %s" % (
                                        loc, sorted(cm), side, loc, sorted(cv), val, b1.replace("\n", "; "), b2.replace("\n", "; "))))
        return out, nmem
    finally:
        conf.Cas.complexity = 0


def feature(s1, s2):
    """coarse, refactoring-stable class of a map pair"""
    def ov(s):
        ls = [l for l, _ in s["w"]]
        return ("Mp" in ls and "M8p1" in ls)
    f = []
    if ov(s1) or ov(s2):
        return "overlapping-writes-in-one-input"
    l1 = set(l for l, _ in s1["w"]); l2 = set(l for l, _ in s2["w"])
    if ("Mp" in l1 and "M8p1" in l2) or ("Mp" in l2 and "M8p1" in l1):
        f.append("overlap-across-inputs")
    if "p==P" in (s1.get("c"), s2.get("c")):
        f.append("pcond1" if s1.get("c") == "p==P" else "pcond2")
    elif s1.get("c") or s2.get("c"):
        f.append("cond")
    if "Mv4" in l1 or "Mv4" in l2:
        f.append("vecptr")
    vals = set(v for _, v in s1["w"]) | set(v for _, v in s2["w"])
    for v in ("tst", "mem", "top", "vecw"):
        if v in vals:
            f.append(v)
    return "+".join(f) or "plain"


def lockind(l):
    return "reg" if l in ("r1", "r2", "f", "p") else "mem"


def shape(s1, s2):
    def one(s):
        return "+".join("%s<-%s" % (l, v) for l, v in s["w"]) + ("|" + s["c"] if s.get("c") else "")
    return one(s1) + " U " + one(s2)


def specs(tier):
    full1 = [{"w": [(l, v)]} for l in LOCS for v in VALS]
    empty = [{"w": []}]
    red1 = [(l, v) for l in RED_LOCS for v in RED_VALS]
    red2 = [{"w": [a, b]} for a in red1 for b in red1]
    pairs = []
    one = empty + full1
    for a in one:
        for b in one:
            pairs.append((a, b))
    for a in red2:
        for b in one:
            if set(l for l, _ in a["w"]) & set(l for l, _ in b["w"]) or not b["w"]:
                pairs.append((a, b))
                pairs.append((b, a))
    if tier == "thorough":
        for a in red2:
            for b in red2:
                pairs.append((a, b))
        full2 = [{"w": [a["w"][0], b["w"][0]]} for a in full1 for b in full1 if a["w"][0][0] != b["w"][0][0]]
        for a in full2:
            for b in full1:
                if b["w"][0][0] in [l for l, _ in a["w"]]:
                    pairs.append((a, b))
    else:
        for a in red2[::1]:
            for b in red2:
                la = [l for l, _ in a["w"]]
                lb = [l for l, _ in b["w"]]
                if la[0] == lb[0] and la[1] == lb[1] and a["w"][0][1] == "cst":
                    pairs.append((a, b))
    return pairs


def cases(tier):
    out = []
    for (a, b) in specs(tier):
        for ci, cj in ((None, None), ("r1==0", None), ("r1==0", "r2!=0"), ("p==P", None), (None, "p==P")):
            aa = dict(a, c=ci) if ci else a
            bb = dict(b, c=cj) if cj else b
            for (w, cx) in CONFIGS:
                if (ci or cj) and (w, cx) not in ((False, 0), (True, 0)):
                    continue
                out.append((aa, bb, w, cx))
    return out


def run_chunk(chunk):
    fails = []
    n = 0
    nmem = 0
    for c in chunk:
        out, k = check_pair(c)
        n += 1
        nmem += k
        for sig, what in out:
            fails.append(Failure(sig, what, {"m1": c[0], "m2": c[1], "widening": c[2], "complexity": c[3]},
                                 rank=len(c[0]["w"]) + len(c[1]["w"])).to_json())
    return n, nmem, fails


def run(tier, seed):
    rep = Report("C19", "model_checking")
    cs = core.rotate(cases(tier), seed)
    nchunks = core.NPROC * 6
    chunks = [cs[i::nchunks] for i in range(nchunks)]
    res = core.pmap(run_chunk, [c for c in chunks if c])
    n = nmem = 0
    for a, b, fl in res:
        n += a
        nmem += b
        for f in fl:
            rep.add(Failure.from_json(f))
    rep.failures.sort(key=lambda f: (f.rank, json.dumps(f.case, sort_keys=True)))
    nontriv = len(set(json.dumps([c[0], c[1]], sort_keys=True) for c in cs
                      if set(l for l, _ in c[0]["w"]) & set(l for l, _ in c[1]["w"])))
    rep.coverage.update({
        "states": len(cs), "transitions": nmem, "traces_validated_against_impl": n,
        "evaluations": nmem, "distinct_nontrivial": nontriv,
        "rule": "every pair of maps from the write menu (9 locations incl. a store through a vector-valued pointer with displacement x 6 value kinds, <=2 writes, optional path conditions) "
                "x (widening, complexity) is merged with the real merge(); per written location the set of alternatives of "
                "the merged value (vec = choice, top/vecw = unknown) must contain each input map's value under every valuation "
                "satisfying that map's condition, and the same after composing with 3 concrete states; non-trivial = distinct "
                "map pairs writing a common location",
        "samples": [cs[0], cs[len(cs) // 2]],
        "bound": "<=2 writes per map, 6 valuations, configs %r" % (CONFIGS,),
    })
    rep.assumptions = ["flags locations may be 'unknown' (not compared)", "pointer registers p and q do not overlap in the valuations"]
    return rep


def replay(case):
    out, _ = check_pair((case["m1"], case["m2"], case["widening"], case["complexity"]))
    return [Failure(sig, what, case) for sig, what in out]
