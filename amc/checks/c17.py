"""C17 -- decoding and executing any bytes never crashes; instructions are well formed.
Complete spec-driven enumeration per ISA mode; every failure is reduced to a
line-number-free signature."""
import json, pickle, sys
from amc import core, isas
from amc.core import Failure, Report, exc_sig
from amc.gen import specwords

PHASES = ["decode", "wellformed", "str", "toks", "pickle", "exec"]


def formatters_of(cpu):
    from amoco.arch.core import Formatter
    out = []
    for k, v in sorted(vars(cpu).items()):
        if isinstance(v, Formatter):
            out.append((k, v))
    return out


def iclass_of(cpu):
    return cpu.disassemble.iclass


def pc_size(cpu):
    try:
        return cpu.PC().size
    except Exception:
        return 32


def check_bytes(cpu, b, fmts, psize, stats, mode_kargs=None):
    """returns list of (phase, hook, mnemonic, mode, detail)"""
    from amoco.arch.core import INSTRUCTION_TYPES
    from amoco.cas.expressions import exp, cst
    from amoco.cas.mapper import mapper
    d = cpu.disassemble
    out = []
    try:
        i = d(b)
        if i is not None:
            i.address = cst(0x1000, psize)
    except Exception as ex:
        # make sure the pending prefix does not poison later cases (that leak is C11's subject)
        try:
            setattr(d, "_disassembler__i", None)
        except Exception:
            pass
        et, fn = exc_sig(ex)
        hook = "?"
        import traceback
        for fs in traceback.extract_tb(ex.__traceback__):
            if "/amoco/arch/" in fs.filename and "/core.py" not in fs.filename and "spec" in fs.filename:
                hook = fs.name
                break
        out.append(("decode", hook, "-", "exc:%s@%s" % (et, fn), "decode(%s) raised %r" % (b.hex(), ex)))
        return out
    if i is None:
        stats["none"] += 1
        return out
    stats["decoded"] += 1
    hook = getattr(getattr(i.spec, "hook", None), "__name__", "?")
    mn = i.mnemonic
    # well-formedness
    bad = None
    if not isinstance(mn, str) or not mn:
        bad = "mnemonic %r" % (mn,)
    elif i.type not in INSTRUCTION_TYPES:
        bad = "type %r" % (i.type,)
    elif i.length < 1:
        bad = "length %r" % (i.length,)
    else:
        for k, o in enumerate(i.operands):
            if not isinstance(o, exp):
                bad = "operand %d is %s" % (k, type(o).__name__)
                break
    if bad:
        out.append(("wellformed", hook, str(mn), bad.split(" ")[0] + (":" + bad.split(" is ")[-1] if " is " in bad else ""),
                    "%s -> %s: %s" % (b.hex(), mn, bad)))
    strs = {}
    icls = type(i)
    saved = icls.__dict__.get("formatter")
    # pickle round trip (rendered with the formatter in place)
    try:
        try:
            s0 = str(i)
        except Exception:
            s0 = None
        j = pickle.loads(pickle.dumps(i, pickle.HIGHEST_PROTOCOL))
        diffs = []
        if j.bytes != i.bytes:
            diffs.append("bytes")
        if j.mnemonic != i.mnemonic:
            diffs.append("mnemonic")
        if j.type != i.type:
            diffs.append("type")
        if [str(o) for o in j.operands] != [str(o) for o in i.operands]:
            diffs.append("operands")
        if s0 is not None:
            try:
                if str(j) != s0:
                    diffs.append("str")
            except Exception as ex:
                diffs.append("str-exc:%s" % type(ex).__name__)
        if diffs:
            out.append(("pickle", hook, str(mn), "diff:" + "+".join(diffs), "pickle round trip of %s [%s] differs in %s" % (b.hex(), mn, diffs)))
    except Exception as ex:
        out.append(("pickle", hook, str(mn), "exc:%s@%s" % exc_sig(ex), "pickle of %s [%s] raised %r" % (b.hex(), mn, ex)))
    for name, f in (fmts or [("default", None)]):
        try:
            if f is not None:
                icls.set_formatter(f)
            strs[name] = str(i)
            if not isinstance(strs[name], str):
                raise TypeError("str() returned %s" % type(strs[name]).__name__)
            t = i.toks()
            if not isinstance(t, list):
                raise TypeError("toks() returned %s" % type(t).__name__)
        except Exception as ex:
            out.append(("render", hook, str(mn), "%s:exc:%s@%s" % ((name,) + exc_sig(ex)), "str/toks of %s [%s] with formatter %s raised %r" % (b.hex(), mn, name, ex)))
    if fmts and saved is not None:
        icls.formatter = saved
    # execute on an empty map
    try:
        m = mapper()
        i(m)
        stats["executed"] += 1
    except Exception as ex:
        out.append(("exec", hook, str(mn), "exc:%s@%s" % exc_sig(ex), "executing %s [%s %s] on an empty map raised %r" % (
            b.hex(), mn, strs.get(list(strs)[-1]) if strs else "", ex)))
    return out


def make_sig(isa, mname, phase, hook, mn, modestr):
    if phase == "decode":
        return (isa, mname, phase, hook, modestr)
    if phase == "render":
        return (isa, mname, phase, modestr)
    if phase == "exec":
        return (isa, mname, phase, mn, modestr)
    return (isa, mname, phase, hook, mn, modestr)


def run_unit(args):
    isa, mode, lo, hi, tier, sweep = args
    try:
        cpu = isas.load(isa)
        isas.set_mode(cpu, mode)
    except Exception as ex:
        return {"fails": [Failure((isa, "import", "exc:%s@%s" % exc_sig(ex)), "importing %s raised %r" % (isa, ex), {"isa": isa, "bytes": ""}).to_json()],
                "stats": {"cases": 0, "decoded": 0, "none": 0, "executed": 0, "specs": 0}}
    d = cpu.disassemble
    S = isas.flatten(d.specs[d.iset()])
    fmts = formatters_of(cpu)
    psize = pc_size(cpu)
    stats = {"cases": 0, "decoded": 0, "none": 0, "executed": 0, "specs": 0}
    fails = []
    e = d.endian()
    mname = isas.mode_name(mode)

    def handle(b):
        stats["cases"] += 1
        isas.set_mode(cpu, mode)
        try:
            with core.time_limit(CASE_TIME_LIMIT):
                res = list(check_bytes(cpu, b, fmts, psize, stats))
        except core.TimeLimit:
            # a cap, not a verdict: the byte string is reported in the evidence as not judged
            stats["timeouts"] = stats.get("timeouts", 0) + 1
            stats.setdefault("timeout_cases", []).append(b.hex())
            setattr(cpu.disassemble, "_disassembler__i", None)
            res = []
            import gc
            gc.collect()       # free what the interrupted operation built here, not inside the next cases' time budget
        for (phase, hook, mn, modestr, detail) in res:
            sig = make_sig(isa, mname, phase, hook, mn, modestr)
            fails.append(Failure(sig, detail, {"isa": isa, "mode": mode, "bytes": b.hex()}, rank=len(b)).to_json())

    if sweep:
        for k in range(lo, hi):
            two = bytes([k >> 8, k & 0xFF])
            handle(two + b"\x00" * 14)
        return {"fails": fails, "stats": stats}
    for s in S[lo:hi]:
        stats["specs"] += 1
        seen = set()
        for b in specwords.cases_for_spec(isa, s, e, d.maxlen, tier):
            if b in seen:
                continue
            seen.add(b)
            handle(b)
    return {"fails": fails, "stats": stats}


CASE_TIME_LIMIT = 20     # seconds for all phases of one byte string


# ISAs whose shortest instructions are one or two bytes long: all 65536 two-byte prefixes are swept (thorough)
SWEEP16_ISAS = ("x86", "x64", "z80", "gb", "w65c02", "msp430", "pic18", "sh2", "v850", "tricore", "dwarf", "wasm", "armv7")


def units(tier):
    U = []
    info = []
    for isa, mode in isas.modes():
        try:
            cpu = isas.load(isa)
            n = len(isas.specs_of(cpu, mode))
        except Exception:
            n = 1
        step = 24 if isa in ("x86", "x64") else 64
        for lo in range(0, n, step):
            U.append((isa, mode, lo, min(n, lo + step), tier, False))
        info.append((isa, isas.mode_name(mode), n))
        if tier == "thorough" and isa in SWEEP16_ISAS:
            for lo in range(0, 65536, 4096):
                U.append((isa, mode, lo, lo + 4096, tier, True))
    return U, info


def broken_modules():
    import importlib
    out = []
    for name, mod in isas.BROKEN:
        try:
            importlib.import_module(mod)
        except Exception as ex:
            out.append(Failure((name, "import", "exc:%s" % type(ex).__name__), "importing %s raised %r" % (mod, ex), {"isa": name, "module": mod, "bytes": ""}))
    return out


def run(tier, seed):
    rep = Report("C17", "model_checking")
    U, info = units(tier)
    U = core.rotate(U, seed)
    res = core.pmap(run_unit, U, chunksize=1)
    tot = {"cases": 0, "decoded": 0, "none": 0, "executed": 0, "specs": 0, "timeouts": 0}
    slow = []
    for r in res:
        slow += r["stats"].get("timeout_cases", [])
        for k in tot:
            tot[k] += r["stats"].get(k, 0)
        for f in r["fails"]:
            rep.add(Failure.from_json(f))
    for f in broken_modules():
        rep.add(f)
    rep.failures.sort(key=lambda f: (f.sig, f.rank, f.case.get("bytes", "")))
    if tot["timeouts"]:
        rep.exhaustive = False
    rep.coverage.update({
        "not_judged_over_time_limit": {"seconds": CASE_TIME_LIMIT, "count": tot["timeouts"], "bytes": sorted(set(slow))[:20]},
        "states": tot["cases"], "transitions": tot["decoded"] * 5 + tot["cases"],
        "traces_validated_against_impl": tot["cases"],
        "evaluations": tot["cases"], "distinct_nontrivial": tot["decoded"],
        "rule": "for every ispec of every ISA mode: the fixed bits with each field walked one at a time (all values of "
                "fields <=5 bits, boundary values of wider ones, don't-care bits, all-zero/all-one), variable tails from a menu, "
                "x86/x64 with the Mod x RM product, SIB menu and prefix menu, truncations; each distinct byte string is decoded, "
                "checked for well-formedness, rendered with every formatter of the module, tokenised, pickled and executed on an "
                "empty mapper; non-trivial = byte strings that decoded to an instruction"
                + ("; plus all 65536 two-byte prefixes per mode of the ISAs with 1/2-byte instructions" if tier == "thorough" else ""),
        "isa_modes": [{"isa": a, "mode": b, "specs": c} for a, b, c in info],
        "specs": tot["specs"], "decoded": tot["decoded"], "no_instruction": tot["none"], "executed": tot["executed"],
        "samples": [{"isa": "x64", "bytes": "4801d8"}, {"isa": U[0][0], "unit": list(U[0][:4])}],
    })
    rep.assumptions = ["a pending-prefix leak after an exception is reset by the harness (C11 decides it)"]
    return rep


def replay(case):
    if not case.get("bytes") and case.get("module"):
        return broken_modules()
    cpu = isas.load(case["isa"])
    mode = case.get("mode") or {}
    isas.set_mode(cpu, mode)
    stats = {"cases": 0, "decoded": 0, "none": 0, "executed": 0}
    b = bytes.fromhex(case["bytes"])
    out = []
    for (phase, hook, mn, modestr, detail) in check_bytes(cpu, b, formatters_of(cpu), pc_size(cpu), stats):
        sig = make_sig(case["isa"], isas.mode_name(mode), phase, hook, mn, modestr)
        out.append(Failure(sig, detail, case))
    return out
