"""C20 -- program identification is total and reports only format errors.
Fault enumeration on amoco.system.core.read_program(bytes): every truncation,
every single-byte corruption of header/table bytes (thorough: pairs), all byte
strings of length <= 2, magic numbers with fillers, corrupted HEX/SREC lines,
and cross-format claims.  Every call runs under a repeating SIGALRM watchdog."""
import io, os, json, signal, struct, tempfile, resource
from amc import core
from amc.core import Failure, Report, exc_sig
from amc.checks import c14
from amc.ref import elfio as EI

TIMEOUT = 10.0


class Watchdog(Exception):
    pass


def _alarm(signum, frame):
    raise Watchdog()


def call_read_program(blob):
    """returns (outcome, detail): outcome in ok:<class> | exc | timeout | alloc"""
    from amoco.system.core import read_program
    signal.signal(signal.SIGALRM, _alarm)
    signal.setitimer(signal.ITIMER_REAL, TIMEOUT, 0.5)   # repeating: survives bare 'except:' clauses
    try:
        try:
            p = read_program(blob)
        finally:
            signal.setitimer(signal.ITIMER_REAL, 0, 0)
        return "ok:" + type(p).__name__, None
    except Watchdog:
        return "timeout", None
    except MemoryError as ex:
        return "alloc", ex
    except RecursionError as ex:
        return "exc", ex
    except Exception as ex:
        return "exc", ex
    finally:
        signal.setitimer(signal.ITIMER_REAL, 0, 0)


OK_CLASSES = ("Elf", "PE", "MachO", "COFF", "HEX", "SREC", "shellcode", "DataIO")


def corpus(tier):
    """list of (name, bytes, header regions [(lo,hi,label)], expected class or None)"""
    C = []
    # synthetic images (small: every header/table byte is corrupted)
    ecases = c14.elf_cases("quick")
    picks = {}
    for c in ecases:
        key = (c["cls"], c["msb"])
        if c["segs"] == 2 and len(c["secs"]) == 3 and c["nsyms"] == 3 and c["layout"] == "ph-first" and c["shstr_last"] and key not in picks:
            picks[key] = c
    for (cls, msb), c in sorted(picks.items()):
        segs, secs, syms, entry = c["_args"]
        blob, desc = EI.Builder(cls, msb, machine=62 if cls == 64 else 3).build([dict(g) for g in segs], [dict(s) for s in secs], [dict(y) for y in syms], entry)
        eh = desc["ehdr"]
        regs = [(0, eh["e_ehsize"], "Ehdr"), (eh["e_phoff"], eh["e_phoff"] + eh["e_phentsize"] * eh["e_phnum"], "Phdr"),
                (eh["e_shoff"], eh["e_shoff"] + eh["e_shentsize"] * eh["e_shnum"], "Shdr")]
        for s in desc["shdrs"]:
            if s["sh_type"] in (2, 3):
                regs.append((s["sh_offset"], s["sh_offset"] + s["sh_size"], "symtab" if s["sh_type"] == 2 else "strtab"))
        C.append(("synthetic-elf%d%s" % (cls, "be" if msb else "le"), blob, regs, "Elf"))
    for plus in (False, True):
        blob = c14.pe_build(plus, 2, 16, 0)
        ref = c14.pe_read(blob)
        C.append(("synthetic-pe32%s" % ("+" if plus else ""), blob, [(0, 0x40, "DOS"), (ref["e_lfanew"], ref["e_lfanew"] + 24 + ref["NT"]["SizeOfOptionalHeader"] + 80, "NT+Opt+sections")], "PE"))
    for plus in (False, True):
        # an image with an import directory (named and ordinal imports from two DLLs)
        # (in the third section, whose virtual size is smaller than its raw size: nothing is zero-filled behind it)
        blob = c14.pe_build(plus, 3, 16, 1, 0, "mixed-2dll", 2)
        ref = c14.pe_read(blob)
        s1 = ref["secs"][2]
        io = s1["PointerToRawData"] + 0x40
        C.append(("synthetic-pe32%s-imports" % ("+" if plus else ""), blob,
                  [(ref["e_lfanew"], ref["e_lfanew"] + 24 + ref["NT"]["SizeOfOptionalHeader"] + 80, "NT+Opt+sections"), (io, io + 0x100, "import-tables")], "PE"))
    for is64 in (False, True):
        blob, d = c14.macho_build(is64, 2, 0)
        C.append(("synthetic-macho%d" % (64 if is64 else 32), blob, [(0, (32 if is64 else 28) + d["sizeofcmds"], "header+cmds")], "MachO"))
    hexf = b"\n".join([c14.hexline(4, 0, b"\x08\x00"), c14.hexline(0, 0x100, bytes(range(16))), c14.hexline(0, 0x110, bytes(range(16, 24))), c14.hexline(1, 0, b"")]) + b"\n"
    C.append(("synthetic-hex", hexf, [(0, len(hexf), "records")], "HEX"))
    srec = b"\n".join([c14.srecline(0, 0, b"HDR"), c14.srecline(1, 0x100, bytes(range(16))), c14.srecline(5, 1, b""), c14.srecline(9, 0x100, b"")]) + b"\n"
    C.append(("synthetic-srec", srec, [(0, len(srec), "records")], "SREC"))
    # shipped samples
    S = os.path.join(core.REPO, "tests", "samples")
    for rel, cls in (("x86/flow.elf", "Elf"), ("x64/flow.elf64", "Elf"), ("sparc/saverestore", "Elf"), ("x86/CoST.exe", "PE"),
                     ("x64/toc.osx/toc.mach-o", "MachO"), ("avr/firmware.hex", "HEX")):
        p = os.path.join(S, rel)
        if not os.path.exists(p):
            continue
        blob = open(p, "rb").read()
        regs = []
        if cls == "Elf":
            r = EI.read(blob)
            eh = r["ehdr"]
            regs = [(0, eh["e_ehsize"], "Ehdr"), (eh["e_phoff"], eh["e_phoff"] + eh["e_phentsize"] * eh["e_phnum"], "Phdr"),
                    (eh["e_shoff"], eh["e_shoff"] + eh["e_shentsize"] * eh["e_shnum"], "Shdr")]
            for s in r["shdrs"]:
                if s["sh_type"] in (2, 6, 11):
                    regs.append((s["sh_offset"], s["sh_offset"] + min(s["sh_size"], 512), {2: "symtab", 6: "dynamic", 11: "dynsym"}[s["sh_type"]]))
        elif cls == "PE":
            ref = c14.pe_read(blob)
            lo = ref["e_lfanew"]
            regs = [(0, 0x40, "DOS"), (lo, lo + 24 + ref["NT"]["SizeOfOptionalHeader"] + 40 * ref["NT"]["NumberOfSections"], "NT+Opt+sections")]
            imp = ref["dirs"][1] if len(ref["dirs"]) > 1 else (0, 0)
            for s in ref["secs"]:
                if imp[0] and s["RVA"] <= imp[0] < s["RVA"] + s["VirtualSize"]:
                    o = s["PointerToRawData"] + imp[0] - s["RVA"]
                    regs.append((o, o + min(imp[1], 200), "import-directory"))
        elif cls == "MachO":
            ncmds, sz = struct.unpack_from("<II", blob, 16)
            regs = [(0, 32 + sz, "header+cmds")]
        elif cls == "HEX":
            regs = [(0, 400, "records")]
        C.append((rel, blob, regs, cls))
    return C


def inputs(tier):
    """yield (kind, label, structure, bytes, expected class or None)"""
    full = tier == "thorough"
    C = corpus(tier)
    # (v) whole files: the right format must claim them
    for name, blob, regs, cls in C:
        yield ("intact", name, "-", blob, cls)
    # (i) truncations
    for name, blob, regs, cls in C:
        lim = len(blob)
        small = name.startswith("synthetic")
        step_after = 64
        k = 0
        while k < lim:
            yield ("truncated", name, "prefix", blob[:k], None)
            if k < (4096 if (full or small) else 512):
                k += 1
            else:
                k += step_after * (1 if full else 8)
    # (ii) single-byte corruptions inside header/table regions
    for name, blob, regs, cls in C:
        small = name.startswith("synthetic")
        for (lo, hi, label) in regs:
            hi = min(hi, len(blob))
            if not small and not full:
                hi = min(hi, lo + 96)
            for o in range(lo, hi):
                x = blob[o]
                vals = []
                for v in (0x00, 0xFF, x ^ 0x80, (x + 1) & 0xFF):
                    if v != x and v not in vals:
                        vals.append(v)
                if not (full or small):
                    vals = vals[:2]
                for v in vals:
                    b = bytearray(blob)
                    b[o] = v
                    yield ("corrupted", name, label, bytes(b), None)
    # pairs of corrupted bytes within one structure (thorough, synthetic images, first structure bytes)
    if full:
        for name, blob, regs, cls in C:
            if not name.startswith("synthetic"):
                continue
            for (lo, hi, label) in regs[:2]:
                hi = min(hi, lo + 40, len(blob))
                for o1 in range(lo, hi):
                    for o2 in range(o1 + 1, hi):
                        for v1, v2 in ((0xFF, 0xFF), (0x00, 0xFF), (0xFF, 0x00)):
                            b = bytearray(blob)
                            b[o1], b[o2] = v1, v2
                            yield ("corrupted2", name, label, bytes(b), None)
    # (iii) short strings and magic numbers
    yield ("short", "len0", "-", b"", None)
    for a in range(256):
        yield ("short", "len1", "-", bytes([a]), None)
    for a in range(256):
        for b_ in range(256):
            yield ("short", "len2", "-", bytes([a, b_]), None)
    magics = [b"\x7fELF", b"MZ\x90\x00", b"\xcf\xfa\xed\xfe", b"\xce\xfa\xed\xfe", b"\xca\xfe\xba\xbe", b"\xbe\xba\xfe\xca", b"\xfe\xed\xfa\xce",
              b"\x4c\x01\x02\x00", b"\x64\x86\x01\x00", b":00000001FF", b":10010000", b"S00600004844521B", b"S1", b"S9030000FC",
              b"\x7fELF\x01\x01\x01", b"\x7fELF\x02\x02\x01", b"\x7fELF\x02\x01\x01", b"PE\0\0"]
    for m in magics:
        for fill in (b"", b"\x00" * 64, b"\xff" * 64, b"\x00" * 4096, b"\xff" * 4096, b"\n", b"\x01" * 300):
            yield ("magic", m.hex()[:12], "-", m + fill, None)
    # (iv) HEX / SREC streams with each line corrupted
    for name, blob, regs, cls in C:
        if cls in ("HEX", "SREC") and name.startswith("synthetic"):
            lines = blob.split(b"\n")
            for i, l in enumerate(lines):
                for repl in (b"", b":", b"S", l[:-1], l + b"0", l[:3] + b"ZZ" + l[5:], l.lower(), b"\x00" + l):
                    L = list(lines)
                    L[i] = repl
                    yield ("line-corrupted", name, "line%d" % i, b"\n".join(L), None)


def run_chunk(chunk):
    d = tempfile.mkdtemp(prefix="amc_c20_")
    os.chdir(d)
    try:
        resource.setrlimit(resource.RLIMIT_AS, (4 << 30, 4 << 30))
    except Exception:
        pass
    fails = []
    stats = {"calls": 0, "ok": {}, "format_errors_swallowed": 0}
    # import every format module before any timed call (imports must not count against the watchdog)
    from amoco.system import elf, pe, macho, coff   # noqa
    from amoco.system.structs import HEX, SREC      # noqa
    call_read_program(b"\x7fELF")
    for (kind, label, structure, blob, expect) in chunk:
        stats["calls"] += 1
        out, ex = call_read_program(blob)
        case = {"kind": kind, "input": label, "structure": structure, "len": len(blob), "hex": blob.hex() if len(blob) <= 600 else None}
        if len(blob) > 600:
            import base64, zlib
            case["z"] = base64.b64encode(zlib.compress(blob)).decode()
        if out.startswith("ok:"):
            cls = out[3:]
            stats["ok"][cls] = stats["ok"].get(cls, 0) + 1
            if cls not in OK_CLASSES:
                fails.append(Failure(("return-type", cls), "read_program returned a %s for %s %s" % (cls, kind, label), case, rank=len(blob)).to_json())
            elif expect and cls != expect:
                fails.append(Failure(("claimed-by-other-format", expect, cls), "valid %s file %s was identified as %s" % (expect, label, cls), case, rank=len(blob)).to_json())
        elif out == "timeout":
            fails.append(Failure(("timeout", label if kind != "short" else "short", structure), "read_program did not return within %.0f s on %s of %s (structure %s, %d bytes)" % (
                TIMEOUT, kind, label, structure, len(blob)), case, rank=len(blob)).to_json())
        elif out == "alloc":
            fails.append(Failure(("alloc", label, structure), "read_program exhausted memory on %s of %s" % (kind, label), case, rank=len(blob)).to_json())
        else:
            et, fn = exc_sig(ex)
            fails.append(Failure(("exception", et, fn), "read_program raised %s(%s) on %s of %s (structure %s, %d bytes)" % (
                et, str(ex)[:80], kind, label, structure, len(blob)), case, rank=len(blob)).to_json())
    os.chdir("/")
    try:
        os.rmdir(d)
    except OSError:
        pass
    return fails, stats


def run(tier, seed):
    rep = Report("C20", "fault_enumeration")
    I = list(inputs(tier))
    I = core.rotate(I, seed)
    nch = core.NPROC * 8
    res = core.pmap(run_chunk, [I[i::nch] for i in range(nch) if I[i::nch]], chunksize=1)
    calls = 0
    okc = {}
    for fl, st in res:
        calls += st["calls"]
        for k, v in st["ok"].items():
            okc[k] = okc.get(k, 0) + v
        for f in fl:
            rep.add(Failure.from_json(f))
    rep.failures.sort(key=lambda f: (f.sig, f.rank))
    kinds = {}
    for it in I:
        kinds[it[0]] = kinds.get(it[0], 0) + 1
    rep.coverage.update({
        "evaluations": calls, "distinct_nontrivial": sum(v for k, v in kinds.items() if k != "short"),
        "states": calls, "transitions": calls, "traces_validated_against_impl": calls,
        "rule": "read_program on: every intact corpus file (8 synthetic ELF/PE/Mach-O/HEX/SREC images + 6 shipped samples; the right format must "
                "claim it); every prefix truncation (all lengths below 4 KiB for synthetic images, denser in thorough); every single-byte "
                "corruption with {00, ff, x^80, x+1} of every byte of the header/table regions (Ehdr/Phdr/Shdr/symtab/strtab/dynamic, DOS/NT/"
                "Optional/section table/import directory, Mach-O header + load commands)%s; all byte strings of length <= 2; 18 magic numbers x 7 "
                "fillers; every line of HEX/SREC streams corrupted 8 ways. Each call under a repeating %.0f s SIGALRM watchdog and RLIMIT_AS 4 GiB; "
                "non-trivial = inputs other than the <=2-byte strings" % (", all pairs within the first 40 bytes of a structure" if tier == "thorough" else "", TIMEOUT),
        "inputs_by_kind": kinds, "returned_classes": okc,
        "samples": [{"kind": I[0][0], "input": I[0][1], "len": len(I[0][3])}, {"kind": "corrupted", "input": "synthetic-macho64", "structure": "header+cmds"}],
        "exhaustive": True,
    })
    rep.assumptions = ["allocation is bounded by RLIMIT_AS (MemoryError is reported); tracemalloc is not used",
                       "a pure-Python unbounded loop is interrupted by the repeating alarm"]
    return rep


def replay(case):
    if case.get("hex") is not None:
        blob = bytes.fromhex(case["hex"])
    else:
        import base64, zlib
        blob = zlib.decompress(base64.b64decode(case["z"]))
    out, ex = call_read_program(blob)
    if out.startswith("ok:"):
        return []
    if out == "exc":
        return [Failure(("exception",) + exc_sig(ex), "read_program raised %r" % (ex,), case)]
    return [Failure((out,), "read_program: %s" % out, case)]
