"""C13 -- expressions, maps and memory behave as values.
(a) explicit-state search over histories of operations applied to a pool of
    *shared* expression objects: no operation may change the width or the
    denotation of a pre-existing pool member;
(b) pickle round trip of every object reached."""
import json, pickle
from amc import core
from amc.core import Failure, Report, exc_sig
from amc.ref import bv

W = 8
VALS = [0, 1, 0x7F, 0x80, 0xFF, 0x55]
ENVS = None


def envs():
    global ENVS
    if ENVS is None:
        ENVS = [bv.Env({"a": x, "b": y, "zz": 1}) for x in VALS for y in VALS]
    return ENVS


def fp(e):
    try:
        return bv.fingerprint(e, envs())
    except Exception as ex:  # broken structure (e.g. comp that does not tile)
        return ("broken", type(ex).__name__, str(ex)[:60])


# ------------------------------------------------------------------ roots
def root_pool(name):
    from amoco.cas import expressions as E
    a = E.reg("a", W)
    b = E.reg("b", W)
    if name == "plain":
        c = E.cst(0x91, W)
        return [a, c, a + b, E.composer([a[0:4], E.cst(0x9, 4)])]
    if name == "signed":
        a.signed(); b.signed()
        c = E.cst(-3, W)
        return [a, b, a < b, c]
    if name == "shapes":
        return [a, a[2:6], E.tst(a[0:1], a, b), -a]
    if name == "wide":
        c = E.cst(0x80, W)
        return [a, c, (a ** b), E.mem(a, W)]
    if name == "subregs":
        # a register with named sub-registers (as the cpu modules define al/ah/ax)
        lo = E.slc(a, 0, 4, ref="a_lo")
        hi = E.slc(a, 4, 4, ref="a_hi")
        return [a, b, lo, hi]
    if name == "slcsf":
        # a slice whose sign annotation differs from its base register's
        s4 = a[0:4]
        s4.sf = True
        t4 = b[4:8]
        t4.sf = True
        return [a, b, s4, t4]
    if name == "cmp":
        x = E.comp(W)
        x[0:W] = b
        x[0:4] = a[4:8]
        return [a, b, x, (a ^ b) & E.cst(0x3C, W)]
    raise ValueError(name)


ROOTS = ["plain", "signed", "shapes", "cmp", "wide", "slcsf", "subregs"]

BINOPS = ["+", "-", "*", "&", "|", "^", "<<", ">>", ".>>", "==", "!=", "<.", ">=.", "<", "<=", ">", ">=",
          "**", "/", "%", ">>>", "<<<"]
UNOPS = ["neg", "not"]
SLICES = [(0, 4), (4, 8), (1, 2), (0, 7)]
SIMPS = [{}, {"bitslice": True}, {"widening": True}]


def transitions(n, sizes, quick):
    """menu of operations on a pool with n members of the given sizes"""
    T = []
    for i in range(n):
        for j in range(n):
            if sizes[i] == sizes[j]:
                for s in BINOPS:
                    T.append(("bin", s, i, j))
            if sizes[i] == sizes[j]:
                T.append(("vec", i, j))
                T.append(("tst", i, j))
            T.append(("composer", i, j))
    for i in range(n):
        for s in UNOPS:
            T.append(("un", s, i))
        for (p, q) in SLICES:
            if q <= sizes[i]:
                T.append(("slice", i, p, q))
        for k, o in enumerate(SIMPS):
            T.append(("simplify", i, k))
        T.append(("eval", i, "concrete"))
        T.append(("eval", i, "partial"))
        if sizes[i] == W:
            T.append(("mapset", i))
            T.append(("memwrite", i, 1))
            T.append(("memwrite", i, -1))
        T.append(("zx", i))
        T.append(("sx", i))
    for i in range(n):
        for j in range(n):
            if sizes[i] == W and sizes[j] == W:
                T.append(("merge", i, j))
    return T


def apply(pool, t):
    """apply transition t on the live pool; returns the produced expression or None.
    Raises on exceptions (handled by the caller)."""
    from amoco.cas import expressions as E
    from amoco.cas.mapper import mapper, merge
    k = t[0]
    if k == "bin":
        _, s, i, j = t
        l, r = pool[i], pool[j]
        f = {"+": lambda: l + r, "-": lambda: l - r, "*": lambda: l * r, "&": lambda: l & r,
             "|": lambda: l | r, "^": lambda: l ^ r, "<<": lambda: l << r, ">>": lambda: l >> r,
             ".>>": lambda: l // r, "==": lambda: l == r, "!=": lambda: l != r,
             "<.": lambda: E.oper(E.OP_LTU, l, r), ">=.": lambda: E.oper(E.OP_GEU, l, r),
             "<": lambda: l < r, "<=": lambda: l <= r, ">": lambda: l > r, ">=": lambda: l >= r,
             "**": lambda: l ** r, "/": lambda: l / r, "%": lambda: l % r,
             ">>>": lambda: E.ror(l, r), "<<<": lambda: E.rol(l, r)}[s]
        return f()
    if k == "un":
        return (-pool[t[2]]) if t[1] == "neg" else (~pool[t[2]])
    if k == "slice":
        return pool[t[1]][t[2]:t[3]]
    if k == "simplify":
        return pool[t[1]].simplify(**SIMPS[t[2]])
    if k == "eval":
        m = mapper()
        m[E.reg("a", W)] = E.cst(0x80, W)
        if t[2] == "concrete":
            m[E.reg("b", W)] = E.cst(0x7F, W)
        return m(pool[t[1]])
    if k == "mapset":
        m = mapper()
        r = E.reg("r", W)
        m[r] = pool[t[1]]
        m[E.reg("s", W)] = r + 1
        y = m(r)
        _ = pickle_roundtrip_mapper(m)
        return y
    if k == "memwrite":
        from amoco.system.memory import MemoryMap
        mm = MemoryMap()
        mm.write(0x10, pool[t[1]], t[2])
        mm.write(0x10 + 0, b"\x01", t[2]) if False else None
        parts = mm.read(0x10, W // 8)
        _ = pickle_roundtrip_mmap(mm)
        p = parts[0]
        return p if hasattr(p, "etype") else None
    if k == "composer":
        return E.composer([pool[t[1]], pool[t[2]]])
    if k == "tst":
        return E.tst(E.reg("a", W)[0:1], pool[t[1]], pool[t[2]])
    if k == "vec":
        return E.vec([pool[t[1]], pool[t[2]]]).simplify()
    if k == "zx":
        return pool[t[1]].zeroextend(2 * W)
    if k == "sx":
        return pool[t[1]].signextend(2 * W)
    if k == "merge":
        m1, m2 = mapper(), mapper()
        r = E.reg("r", W)
        m1[r] = pool[t[1]]
        m2[r] = pool[t[2]]
        mm = merge(m1, m2)
        return mm[r]
    raise ValueError(t)


class PickleMismatch(Exception):
    pass


def pickle_roundtrip_exp(x):
    y = pickle.loads(pickle.dumps(x, pickle.HIGHEST_PROTOCOL))
    if str(y) != str(x):
        raise PickleMismatch("str %s != %s" % (y, x))
    if y.size != x.size:
        raise PickleMismatch("size %s != %s" % (y.size, x.size))
    if type(y) is not type(x):
        raise PickleMismatch("type %s != %s" % (type(y).__name__, type(x).__name__))
    if fp(y) != fp(x):
        raise PickleMismatch("fingerprint differs for %s" % x)
    if hash(y) != hash(x):
        raise PickleMismatch("hash differs for %s" % x)
    if bool(getattr(y, "sf", False)) != bool(getattr(x, "sf", False)):
        raise PickleMismatch("sf differs for %s" % x)
    # registers inside the restored expression must print their sub-registers like the original (named slices)
    rx, ry = regs_in(x), regs_in(y)
    for name in rx:
        if name in ry:
            for (pos, size) in sorted(getattr(rx[name], "_subrefs", {}) or {}):
                a, b = str(rx[name][pos:pos + size]), str(ry[name][pos:pos + size])
                if a != b:
                    raise PickleMismatch("subregister %s[%d:%d] of the restored register prints %s, original %s" % (name, pos, pos + size, b, a))
    return y


def regs_in(e, acc=None, depth=0):
    """registers reachable in an expression (by name)"""
    acc = {} if acc is None else acc
    if depth > 12 or e is None or not hasattr(e, "etype"):
        return acc
    k = type(e).__name__
    if k == "reg":
        acc.setdefault(e.ref, e)
        return acc
    for attr in ("l", "r", "x", "tst", "a", "base"):
        c = getattr(e, attr, None)
        if c is not None and hasattr(c, "etype"):
            regs_in(c, acc, depth + 1)
    if k == "comp":
        for p in e.parts.values():
            regs_in(p, acc, depth + 1)
    if k in ("vec", "vecw"):
        for p in e.l:
            regs_in(p, acc, depth + 1)
    return acc


def pickle_roundtrip_mapper(m):
    m2 = pickle.loads(pickle.dumps(m, pickle.HIGHEST_PROTOCOL))
    if str(m2) != str(m):
        raise PickleMismatch("mapper str differs: %s / %s" % (m2, m))
    if not (m2 == m):
        raise PickleMismatch("mapper == differs")
    for (l1, v1), (l2, v2) in zip(m, m2):
        if str(l1) != str(l2) or fp(v1) != fp(v2):
            raise PickleMismatch("mapper entry %s differs" % l1)
    if str(m2.mmap) != str(m.mmap):
        raise PickleMismatch("mapper memory differs")
    return m2


def pickle_roundtrip_mmap(mm):
    m2 = pickle.loads(pickle.dumps(mm, pickle.HIGHEST_PROTOCOL))
    if str(m2) != str(mm):
        raise PickleMismatch("MemoryMap str differs")
    a = mm.read(0x10, 1)
    b = m2.read(0x10, 1)
    if [str(x) for x in a] != [str(x) for x in b]:
        raise PickleMismatch("MemoryMap read differs")
    return m2


def kindof(x):
    return type(x).__name__


def build(root, hist):
    pool = root_pool(root)
    for t in hist:
        try:
            r = apply(pool, tuple(t))
        except Exception:
            r = None
        if r is not None and hasattr(r, "etype") and len(pool) < 6 and r._is_def and r.size > 0:
            pool.append(r)
    return pool


def step(root, hist, t, before=None):
    """returns (failures list, produced, fingerprints after incl. produced)"""
    pool = build(root, hist)
    if before is None:
        before = [fp(x) for x in pool]
    kinds = [kindof(x) for x in pool]
    fails = []
    produced = None
    try:
        produced = apply(pool, t)
    except ZeroDivisionError:
        produced = None
    except PickleMismatch as ex:
        fails.append((("pickle", t[0], str(ex).split(" ")[0]), "after %r %r: pickle round trip: %s" % (hist, t, ex)))
    except Exception as ex:
        # exceptions are C01/C17 business unless they left damage behind; record only damage
        produced = None
    after = [fp(x) for x in pool]
    for i, (b, a) in enumerate(zip(before, after)):
        if bv.fingerprint_changed(b, a):
            if t[0] == "simplify" and t[1] == i and SIMPS[t[2]].get("widening") and a[0] == b[0]:
                # widening deliberately over-approximates the simplified object itself
                continue
            what = "width" if (isinstance(a, tuple) and isinstance(b, tuple) and a[0] != b[0]) else "value"
            if a and a[0] == "broken":
                what = "broken"
            opn = t[1] if t[0] in ("bin", "un") else ""
            idx = t[2:] if t[0] in ("bin", "un") else t[1:]
            role = "operand" if i in idx else "bystander"
            sig = (t[0] + (":" + opn if opn else ""), "changed=%s(%s)" % (kinds[i], role), what)
            orig = build(root, hist)
            fails.append((sig, "pool %s from root %s history %r: %r changed member %d (%s): %s -> %s; fingerprint %r -> %r" % (
                [str(x) for x in orig], root, hist, t, i, kinds[i], orig[i], pool[i], b, a)))
    pf = None
    if produced is not None and hasattr(produced, "etype") and produced._is_def:
        try:
            pickle_roundtrip_exp(produced)
        except PickleMismatch as ex:
            fails.append((("pickle", kindof(produced), str(ex).split(" ")[0]), "pickle of %s (from %r %r): %s" % (produced, hist, t, ex)))
        except Exception as ex:
            fails.append((("pickle", kindof(produced), "exc:%s" % type(ex).__name__), "pickle of %s raised %r" % (produced, ex)))
    return fails, produced, after


def explore_shard(args):
    root, depth, shard, nshards = args
    seen = set()
    fails = []
    stats = {"states": 0, "transitions": 0, "produced": 0, "nondet": 0}
    pool0 = build(root, [])
    frontier = [[]]
    for d in range(depth):
        nxt = []
        for hist in frontier:
            pool = build(root, hist)
            sizes = [x.size for x in pool]
            before = [fp(x) for x in pool]
            T = transitions(len(pool), sizes, True)
            if d == 0:
                T = T[shard::nshards]
            elif d >= 2:
                # third level (thorough): only operations in which the newest member takes part, reduced operator menu
                last = len(pool) - 1
                keep = []
                for t in T:
                    if t[0] == "bin":
                        if t[2] == last and t[3] in (last, 0) and t[1] in ("+", "^", "<<", "<"):
                            keep.append(t)
                    elif t[0] in ("vec", "tst", "composer", "merge"):
                        if t[1] == last and t[2] == 0:
                            keep.append(t)
                    elif t[1] == last or (t[0] == "un" and t[2] == last):
                        keep.append(t)
                T = keep
            for t in T:
                stats["transitions"] += 1
                fl, produced, after = step(root, hist, t, before)
                for sig, what in fl:
                    fails.append(Failure(sig, what, {"root": root, "hist": hist, "op": list(t)}, rank=len(hist)).to_json())
                if fl or produced is None:
                    continue
                if not (hasattr(produced, "etype") and produced._is_def and produced.size > 0) or len(pool) >= 6:
                    continue
                stats["produced"] += 1
                key = tuple(after) + (fp(produced),)
                if key not in seen:
                    seen.add(key)
                    stats["states"] += 1
                    h2 = hist + [list(t)]
                    nxt.append(h2)
                    if stats["states"] % 500 == 0:
                        k2 = tuple(fp(x) for x in build(root, h2))
                        if k2 != key:
                            stats["nondet"] += 1
        frontier = nxt
    return {"root": root, "stats": stats, "fails": fails, "frontier_left": len(frontier)}


# ------------------------------------------------------------------ (c) one live mapper: results and copies are values
MW = 32
MREGS = ("r", "s")
MRANGES = ((0, 32), (0, 8), (8, 16), (0, 1), (1, 2))


def m_envs():
    def memf(a, n):
        return bytes(((a + i) * 7 + 3) & 0xFF for i in range(n))
    return [bv.Env({"r": x, "s": y, "p": 0x1000, "t": z}, memf) for (x, y, z) in
            ((0, 0, 0), (0x11223344, 0xA1B2C3D4, 5), (0xFFFFFFFF, 1, 0x80), (0x80000000, 0x7FFFFFFF, 0xFF))]


def m_ops(reduced=False):
    ops = []
    for rg in MREGS:
        for (lo, hi) in (MRANGES if not reduced else [r for r in MRANGES if r != (8, 16)]):
            for val in (("cst", "other", "inc") if not reduced else ("cst", "other")):
                ops.append(("w", rg, lo, hi, val))
    for size in (8, 32):
        for off in (0, 1):
            for val in (("cst", "other") if not reduced else ("cst",)):
                ops.append(("wm", size, off, val))
    for rg in MREGS:
        ops.append(("r", rg))
    ops += [("rm", 8, 0), ("rm", 32, 0), ("rm", 8, 1), ("copy",), ("mcopy",), ("ru", "r"), ("ru", "s"), ("ev", "alias"), ("ev", "store"), ("evc",)]
    return ops


OBSERVERS = ("r", "rm", "copy", "mcopy", "ru", "ev", "evc")


def m_content(m, E, R, envs):
    """everything observable of the mapper: whole registers, unaligned sub-ranges, memory window"""
    out = []
    for rg in MREGS:
        for (lo, hi) in ((0, MW), (0, 16), (4, 12), (1, 2)):
            try:
                x = m(R[rg]) if (lo, hi) == (0, MW) else m(R[rg][lo:hi])
                out.append(bv.fingerprint(x, envs))
            except Exception as ex:
                out.append(("exc", type(ex).__name__))
    for off in (0, 1, 2, 3, 4):
        try:
            out.append(bv.fingerprint(m(E.mem(R["p"], 8, disp=off)), envs))
        except Exception as ex:
            out.append(("exc", type(ex).__name__))
    return tuple(out)


def m_value(E, R, val, size, k):
    if val == "cst":
        return E.cst((0x5A6B7C8D * (k + 1)) & ((1 << size) - 1), size)
    if val == "other":
        return R["t"][0:size]
    return (R["t"] + (k + 1))[0:size]


def m_snapshot_mapper(m, E, R, envs):
    """observable content of a mapper: registers and a window of memory"""
    out = []
    for rg in MREGS:
        out.append(bv.fingerprint(m(R[rg]), envs))
    for off in (0, 1, 2, 3, 4):
        out.append(bv.fingerprint(m(E.mem(R["p"], 8, disp=off)), envs))
    return tuple(out)


def m_run(hist):
    """replay hist on a fresh mapper; after every step (C13) every previously obtained result (expressions read from
    the mapper, copies of the mapper, copies of its memory) must still denote what it denoted when it was obtained, and
    (C12) every register value must have the register's width and, if composite, parts that tile it exactly.
    returns (list of (pid, sig, what), number of invariant evaluations)"""
    from amoco.cas import expressions as E
    from amoco.cas.mapper import mapper
    R = {n: E.reg(n, MW) for n in ("r", "s", "p", "t")}
    envs = m_envs()
    m = mapper()
    kept = []      # (description, object, kind, fingerprint when obtained)
    n = 0
    out = []
    for k, op in enumerate(hist):
        try:
            if op[0] == "w":
                _, rg, lo, hi, val = op
                loc = R[rg] if (lo, hi) == (0, MW) else R[rg][lo:hi]
                m[loc] = m_value(E, R, val, hi - lo, k)
            elif op[0] == "wm":
                _, size, off, val = op
                m[E.mem(R["p"], size, disp=off)] = m_value(E, R, val, size, k)
            elif op[0] == "r":
                x = m[R[op[1]]]
                kept.append(("m[%s] read after step %d" % (op[1], k), x, "exp", bv.fingerprint(x, envs)))
                y = m(R[op[1]])
                kept.append(("m(%s) evaluated after step %d" % (op[1], k), y, "exp", bv.fingerprint(y, envs)))
            elif op[0] == "rm":
                x = m(E.mem(R["p"], op[1], disp=op[2]))
                kept.append(("m(M%d(p+%d)) after step %d" % (op[1], op[2], k), x, "exp", bv.fingerprint(x, envs)))
            elif op[0] == "copy":
                c = m.use()
                kept.append(("m.use() after step %d" % k, c, "mapper", m_snapshot_mapper(c, E, R, envs)))
            elif op[0] == "mcopy":
                c = mapper()
                c.setmemory(m.mmap.copy())
                kept.append(("copy of m.mmap after step %d" % k, c, "mapper", m_snapshot_mapper(c, E, R, envs)))
            elif op[0] == "ev":
                # evaluate another (block) map in this mapper / compose it after this mapper: m is only an environment
                from amoco.config import conf
                old = conf.Cas.noaliasing
                try:
                    conf.Cas.noaliasing = (op[1] != "alias")
                    B = mapper()
                    B[E.mem(R["p"], 32)] = R["t"]
                    B[E.mem(R["t"], 32, disp=4)] = E.cst(0x0BADF00D, 32)
                    if op[1] == "alias":
                        B[R["s"]] = B(E.mem(R["p"], 32))
                    res = m >> B
                finally:
                    conf.Cas.noaliasing = old
                kept.append(("(m >> block) after step %d" % k, res, "mapper", m_snapshot_mapper(res, E, R, envs)))
            elif op[0] == "evc":
                # compose the mapper after a concrete state (its symbolic parts become constants in the RESULT only)
                C = mapper()
                for nm, val in (("t", 0x0A0B0C0D), ("r", 0x11223344), ("s", 0x55667788), ("p", 0x1000)):
                    C[R[nm]] = E.cst(val, MW)
                res = C >> m
                kept.append(("(concrete >> m) after step %d" % k, res, "mapper", m_snapshot_mapper(res, E, R, envs)))
            elif op[0] == "ru":
                # read a register and use the result as an operand (simplifying the new expression, slicing the result)
                x = m[R[op[1]]]
                kept.append(("m[%s] read after step %d" % (op[1], k), x, "exp", bv.fingerprint(x, envs)))
                y = (x + 1)
                y.simplify()
                z = x[4:12]
        except Exception as ex:
            return out, n      # raising operations are C01/C17 business
        if op[0] == "w":
            n += 1
            try:
                v = m[R[op[1]]]
                msg = None
                if v.size != MW:
                    msg = ("size", "has size %s" % v.size)
                else:
                    t = bv.comps_ok(v)
                    if t:
                        msg = ("tiling", t)
            except Exception as ex:
                msg = ("tiling", "reading it raised %r" % (ex,))
            if msg and not any(o[0] == "C12" for o in out):
                out.append(("C12", ("live-mapper", msg[0], "w%d:%d" % (op[2], op[3])),
                            "history %r: after step %d %r the value of register %s %s" % (hist, k, op, op[1], msg[1])))
        for (desc, obj, kind, f0) in kept:
            n += 1
            try:
                f1 = bv.fingerprint(obj, envs) if kind == "exp" else m_snapshot_mapper(obj, E, R, envs)
            except Exception as ex:
                f1 = ("broken", type(ex).__name__)
            if (bv.fingerprint_changed(f0, f1) if kind == "exp" else f1 != f0):
                out.append(("C13", ("live-mapper", kind, op[0], "after:" + desc.split(" ")[0].split("(")[0]),
                            "history %r: the %s changed when step %d %r was applied to the mapper it came from: %r -> %r (now %s)" % (
                                hist, desc, k, op, f0, f1, str(obj).replace("\n", "; ")[:160])))
                return out, n
    # observers (reads, copies, uses of results) must not change what the mapper holds: compare with a replay of the
    # writes alone
    if any(o[0] in OBSERVERS for o in hist):
        n += 1
        try:
            m2 = mapper()
            for k, op in enumerate(hist):
                if op[0] == "w":
                    _, rg, lo, hi, val = op
                    loc = R[rg] if (lo, hi) == (0, MW) else R[rg][lo:hi]
                    m2[loc] = m_value(E, R, val, hi - lo, k)
                elif op[0] == "wm":
                    _, size, off, val = op
                    m2[E.mem(R["p"], size, disp=off)] = m_value(E, R, val, size, k)
            c1, c2 = m_content(m, E, R, envs), m_content(m2, E, R, envs)
        except Exception:
            c1 = c2 = None
        if c1 != c2:
            idx = next(i for i, (x, y) in enumerate(zip(c1, c2)) if x != y)
            obs = [o[0] for o in hist if o[0] in OBSERVERS]
            out.append(("C13", ("live-mapper", "observer-effect", "+".join(sorted(set(obs)))),
                        "history %r: the mapper's content differs from a replay of its writes alone (observation #%d: %r vs %r): "
                        "reading, copying or using results changed the map" % (hist, idx, c1[idx], c2[idx])))
    return out, n


def mapper_shard(args):
    depth, shard, nshards = args[:3]
    want = args[3] if len(args) > 3 else "C13"
    ops = m_ops(reduced=depth >= 4)      # depth 4 (thorough) runs over the reduced operation menu; depth <= 3 over the full one
    full_ops = m_ops()
    fails = []
    stats = {"histories": 0, "invariants": 0}
    import itertools
    for d in range(1, depth + 1):
        for idx, hist in enumerate(itertools.product(ops if d >= 4 else full_ops, repeat=d)):
            if idx % nshards != shard:
                continue
            # only histories that obtain something before the last step (C13) or end with a register write (C12)
            # can violate an invariant that shorter histories did not already violate
            if want == "C13" and not any(o[0] in OBSERVERS for o in hist[:-1]) and hist[-1][0] != "ru":
                continue
            if want == "C12" and (hist[-1][0] != "w" or any(o[0] != "w" for o in hist)):
                continue
            stats["histories"] += 1
            fl, n = m_run(list(hist))
            stats["invariants"] += n
            for (pid, sig, what) in fl:
                if pid == want:
                    fails.append(Failure(sig, what, {"mapper_history": [list(o) for o in hist]}, rank=d).to_json())
    return {"stats": stats, "fails": fails}


def run(tier, seed):
    rep = Report("C13", "model_checking")
    depth = 2 if tier == "quick" else 3
    roots = core.rotate(ROOTS, seed)
    NS = 8
    res = core.pmap(explore_shard, [(r, depth, k, NS) for r in roots for k in range(NS)])
    tot = {"states": 0, "transitions": 0, "produced": 0, "nondet": 0}
    per = []
    for r in res:
        for k in tot:
            tot[k] += r["stats"][k]
        per.append({"root": r["root"], "states": r["stats"]["states"], "transitions": r["stats"]["transitions"],
                    "open_states_at_bound": r["frontier_left"]})
        tot["states"] += 0
        for f in r["fails"]:
            rep.add(Failure.from_json(f))
    mdepth = 3 if tier == "quick" else 4
    mres = core.pmap(mapper_shard, [(mdepth, k, 32) for k in range(32)])
    mtot = {"histories": 0, "invariants": 0}
    for r in mres:
        for k in mtot:
            mtot[k] += r["stats"][k]
        for f in r["fails"]:
            rep.add(Failure.from_json(f))
    tot["states"] += mtot["histories"]
    tot["transitions"] += mtot["invariants"]
    if tot["nondet"]:
        rep.harness_errors.append("replay nondeterminism: %d" % tot["nondet"])
    rep.failures.sort(key=lambda f: (f.rank, json.dumps(f.case)))
    rep.coverage.update({
        "states": tot["states"], "transitions": tot["transitions"],
        "traces_validated_against_impl": tot["transitions"],
        "evaluations": tot["transitions"], "distinct_nontrivial": tot["states"],
        "rule": "BFS over histories of operations (22 binary operators on every ordered pair incl. i==j, unary, slices, "
                "simplify x3, mapper eval concrete/partial, mapper store+read, memory write+read, composer, tst, vec, "
                "extensions, merge) applied to pools of shared expression objects (5 roots); state = tuple of member "
                "fingerprints (size, walker value under 36 valuations); invariant: no pre-existing member's fingerprint "
                "changes; every produced object, mapper and MemoryMap is pickled and compared; (c) one live mapper: every "
                "history up to the depth over whole/partial register writes, memory writes at two offsets, reads, m.use() and "
                "memory copies -- every expression read and every copy taken earlier keeps its denotation after each later step",
        "live_mapper": dict(mtot, depth=mdepth, operations=len(m_ops())),
        "per_root": per, "depth": depth, "third_level": "unary/slice/simplify/eval/store operations on the newest member and 4 binary operators pairing it with itself and member 0" if depth >= 3 else None, "closed_below_bound": all(p["open_states_at_bound"] == 0 for p in per),
        "samples": [{"root": "plain", "pool": ["a", "0x91", "(a+b)", "{a[0:4],0x9}"], "transition": ["bin", ".>>", 1, 0]},
                    {"root": "signed", "transition": ["eval", 2, "concrete"]}],
    })
    rep.exhaustive = True
    rep.assumptions = ["the sf annotation is observed only through the denotation of enclosing sign-sensitive nodes",
                       "exceptions raised by an operation are not C13 violations unless a pool member changed"]
    return rep


def replay(case):
    if "mapper_history" in case:
        fl, _ = m_run([tuple(o) for o in case["mapper_history"]])
        return [Failure(sig, what, case) for (pid, sig, what) in fl if pid == "C13"]
    fl, _, _ = step(case["root"], case["hist"], tuple(case["op"]))
    return [Failure(sig, what, case) for sig, what in fl]
