"""C14 -- executable-format parsers report what the file encodes.
Synthesised ELF images (all class/byte-order combinations, tables in several
placements), the shipped samples cross-read by independent struct readers,
generated PE/Mach-O header sets, generated HEX/SREC record streams."""
import io, json, os, struct, itertools, glob
from amc import core
from amc.core import Failure, Report, exc_sig
from amc.ref import elfio as EI

SAMPLES = os.path.join(core.REPO, "tests", "samples")


def dataio(b, name="synthetic"):
    from amoco.system.core import DataIO
    d = DataIO(io.BytesIO(b))
    return d


# ------------------------------------------------------------------ ELF lattice
def elf_cases(tier):
    full = tier == "thorough"
    text = bytes((i * 7 + 1) & 0xFF for i in range(0x40))
    data = bytes((i * 5 + 0x80) & 0xFF for i in range(0x20))
    segs_menu = [
        [],
        [dict(type=EI.PT_LOAD, flags=5, vaddr=0x400000, data=text, align=0x1000)],
        [dict(type=EI.PT_LOAD, flags=5, vaddr=0x400040, data=text, align=0x10),
         dict(type=EI.PT_LOAD, flags=6, vaddr=0x600100, data=data, memsz=0x60, align=0x10)],
        [dict(type=EI.PT_INTERP, flags=4, vaddr=0x400200, data=b"/lib/ld.so\0", align=1),
         dict(type=EI.PT_LOAD, flags=5, vaddr=0x400000, data=text, align=0x1000),
         dict(type=EI.PT_GNU_STACK, flags=6, vaddr=0, data=b"", align=0x10)],
        [dict(type=EI.PT_NOTE, flags=4, vaddr=0x400300, data=b"\x04\0\0\0\x04\0\0\0\x01\0\0\0GNU\0abcd", align=4),
         dict(type=EI.PT_LOAD, flags=5, vaddr=0x400000, data=text, align=0x1000),
         dict(type=EI.PT_LOAD, flags=6, vaddr=0x601000, data=data, memsz=0x20, align=0x1000)],
    ]
    out = []
    for cls in (32, 64):
        for msb in (False, True):
            for si, segs in enumerate(segs_menu):
                loads = [k for k, g in enumerate(segs) if g["type"] == EI.PT_LOAD]
                secs_menu = [[]]
                if loads:
                    g0 = segs[loads[0]]
                    s_text = dict(name=".text", type=EI.SHT_PROGBITS, flags=6, addr=g0["vaddr"] + 0x10, size=0x20, in_segment=loads[0], addralign=16)
                    secs_menu.append([s_text])
                    if len(loads) > 1:
                        g1 = segs[loads[1]]
                        s_data = dict(name=".data", type=EI.SHT_PROGBITS, flags=3, addr=g1["vaddr"], size=len(g1["data"]), in_segment=loads[1], addralign=8)
                        s_bss = dict(name=".bss", type=EI.SHT_NOBITS, flags=3, addr=g1["vaddr"] + len(g1["data"]), size=g1.get("memsz", 0) - len(g1["data"]), addralign=8)
                        secs_menu.append([s_text, s_data, s_bss])
                        secs_menu.append([s_data, dict(name=".comment", type=EI.SHT_PROGBITS, flags=0, addr=0, data=b"amc\0", addralign=1)])
                else:
                    secs_menu.append([dict(name=".text", type=EI.SHT_PROGBITS, flags=6, addr=0x1000, data=text[:0x18], addralign=4)])
                for secs in secs_menu:
                    nsec = len(secs)
                    syms_menu = [[]]
                    if nsec:
                        base = secs[0]["addr"]
                        syms_menu.append([dict(name="main", value=base + 4, size=8, info=0x12, shndx=1)])
                        syms_menu.append([dict(name="f0", value=base, size=4, info=0x12, shndx=1),
                                          dict(name="gvar", value=base + 0x10, size=4, info=0x11, shndx=1),
                                          dict(name="undef_fn", value=0, size=0, info=0x12, shndx=0)])
                    for syms in syms_menu:
                        for layout in (("ph-first", "sh-first") if (full or si in (2, 4)) else ("ph-first",)):
                            for entpad in ((0, 8) if full else (0,)):
                                for shstr_last in ((True, False) if (full or nsec == 3) else (True,)):
                                    entry = (segs[loads[0]]["vaddr"] + 0x10) if loads else 0x1000
                                    out.append(dict(cls=cls, msb=msb, segs=si, secs=[s["name"] for s in secs], nsyms=len(syms), layout=layout,
                                                    entpad=entpad, shstr_last=shstr_last,
                                                    _args=([dict(g) for g in segs], [dict(s) for s in secs], [dict(y) for y in syms], entry)))
    return out


def elf_check(case):
    from amoco.system.elf import Elf, Phdr
    out = []
    segs, secs, syms, entry = case["_args"]
    b = EI.Builder(case["cls"], case["msb"], machine=(62 if case["cls"] == 64 else 3))
    blob, desc = b.build(segs, secs, syms, entry, case["layout"], case["entpad"], case["shstr_last"])
    ref = EI.read(blob)
    tag = "ELF%d%s" % (case["cls"], "MSB" if case["msb"] else "LSB")
    cdesc = {k: v for k, v in case.items() if k != "_args"}
    cdesc["kind"] = "elf"

    def F(what, field, detail):
        out.append(((tag if what != "query" else "ELF", what, field), "%s segs#%d secs %s syms %d layout %s pad %d: %s" % (
            tag, case["segs"], case["secs"], case["nsyms"], case["layout"], case["entpad"], detail), cdesc))
    # sanity of the reference against the builder's own description
    if [p["p_vaddr"] for p in ref["phdrs"]] != [p["p_vaddr"] for p in desc["phdrs"]]:
        F("harness", "-", "reference reader disagrees with the writer")
        return out
    try:
        p = Elf(dataio(blob))
    except Exception as ex:
        F("parse-exc:%s@%s" % exc_sig(ex), "-", "Elf() raised %r" % (ex,))
        return out
    n = 0
    for k, v in ref["ehdr"].items():
        n += 1
        if getattr(p.Ehdr, k, None) != v:
            F("field", "Ehdr." + k, "Ehdr.%s = %r, file encodes %r" % (k, getattr(p.Ehdr, k, None), v))
    if p.entrypoints != [ref["ehdr"]["e_entry"]]:
        F("field", "entrypoints", "entrypoints %r, e_entry %#x" % (p.entrypoints, ref["ehdr"]["e_entry"]))
    if len(p.Phdr) != len(ref["phdrs"]):
        F("count", "Phdr", "%d program headers reported, file has %d" % (len(p.Phdr), len(ref["phdrs"])))
    else:
        for i, (a, r) in enumerate(zip(p.Phdr, ref["phdrs"])):
            for k, v in r.items():
                n += 1
                if getattr(a, k, None) != v:
                    F("field", "Phdr." + k, "Phdr[%d].%s = %r, file encodes %r" % (i, k, getattr(a, k, None), v))
    if len(p.Shdr) != len(ref["shdrs"]):
        F("count", "Shdr", "%d section headers reported, file has %d" % (len(p.Shdr), len(ref["shdrs"])))
    else:
        for i, (a, r) in enumerate(zip(p.Shdr, ref["shdrs"])):
            for k, v in r.items():
                n += 1
                if getattr(a, k, None) != v:
                    F("field", "Shdr." + k, "Shdr[%d].%s = %r, file encodes %r" % (i, k, getattr(a, k, None), v))
    # symbols
    if ".symtab" in ref["symtabs"]:
        try:
            st = p.readsection(".symtab")
            want = ref["symtabs"][".symtab"]
            if st is None or len(st) != len(want):
                F("count", "symtab", "symbol table has %r entries, file has %d" % (None if st is None else len(st), len(want)))
            else:
                for i, (a, r) in enumerate(zip(st, want)):
                    for k, v in r.items():
                        if k == "name":
                            continue
                        n += 1
                        if getattr(a, k, None) != v:
                            F("field", "Sym." + k, "Sym[%d].%s = %r, file encodes %r" % (i, k, getattr(a, k, None), v))
            wf = dict((y["st_value"], y["name"]) for y in want if (y["st_info"] & 0xF) == 2 and y["st_value"])
            gf = dict((k, v[0]) for k, v in p.functions.items())
            if gf != wf:
                F("field", "functions", "functions %r, symbol table says %r" % (gf, wf))
            wv = dict((y["st_value"], y["name"]) for y in want if (y["st_info"] & 0xF) == 1 and y["st_value"])
            gv = dict((k, v[0]) for k, v in p.variables.items())
            if gv != wv:
                F("field", "variables", "variables %r, symbol table says %r" % (gv, wv))
        except Exception as ex:
            F("symbols-exc:%s@%s" % exc_sig(ex), "symtab", "reading symbols raised %r" % (ex,))
    # segment / section contents
    for i, (a, r) in enumerate(zip(p.Phdr, ref["phdrs"])):
        try:
            got = p.readsegment(a)
            want = blob[r["p_offset"]:r["p_offset"] + r["p_filesz"]].ljust(r["p_memsz"], b"\0")
            n += 1
            if got != want:
                F("content", "readsegment", "readsegment(Phdr[%d]) differs from the file bytes padded to memsz" % i)
        except Exception as ex:
            F("readsegment-exc:%s@%s" % exc_sig(ex), "readsegment", "readsegment raised %r" % (ex,))
    for i, r in enumerate(ref["shdrs"]):
        if r["sh_type"] != EI.SHT_PROGBITS:
            continue
        try:
            got = p.readsection(r["name"])
            want = blob[r["sh_offset"]:r["sh_offset"] + r["sh_size"]]
            n += 1
            if got != want:
                F("content", "readsection", "readsection(%s) = %r, file bytes %r" % (r["name"], got[:8], want[:8]))
        except Exception as ex:
            F("readsection-exc:%s@%s" % exc_sig(ex), "readsection", "readsection raised %r" % (ex,))
    # address queries at every boundary +-1
    def expected_offset(a):
        for r in ref["shdrs"]:
            if r["sh_type"] == EI.SHT_PROGBITS and r["sh_addr"] and r["sh_addr"] <= a < r["sh_addr"] + r["sh_size"]:
                return r["sh_offset"] + (a - r["sh_addr"]), r["sh_addr"] + r["sh_size"] - a
        for r in ref["phdrs"]:
            if r["p_type"] == EI.PT_LOAD and r["p_vaddr"] <= a < r["p_vaddr"] + r["p_filesz"]:
                return r["p_offset"] + (a - r["p_vaddr"]), r["p_vaddr"] + r["p_filesz"] - a
        return None, 0
    addrs = set()
    for r in ref["shdrs"]:
        if r["sh_type"] == EI.SHT_PROGBITS and r["sh_addr"]:
            for d in (-1, 0, 1):
                addrs.add(r["sh_addr"] + d)
                addrs.add(r["sh_addr"] + r["sh_size"] + d)
    for r in ref["phdrs"]:
        if r["p_type"] == EI.PT_LOAD:
            for d in (-1, 0, 1):
                addrs.add(r["p_vaddr"] + d)
                addrs.add(r["p_vaddr"] + r["p_filesz"] + d)
    has_secs = any(r["sh_type"] == EI.SHT_PROGBITS and r["sh_addr"] for r in ref["shdrs"])

    def qclass(a, want):
        """which situation the queried address is in (keeps unrelated findings apart)"""
        insec = any(r["sh_type"] == EI.SHT_PROGBITS and r["sh_addr"] and r["sh_addr"] <= a < r["sh_addr"] + r["sh_size"] for r in ref["shdrs"])
        if has_secs and want is not None and not insec:
            return "in-segment-outside-sections"
        return ("sections" if has_secs else "no-sections") + ("/mapped" if want is not None else "/unmapped")
    for a in sorted(addrs):
        want, room = expected_offset(a)
        n += 1
        try:
            got = p.getfileoffset(a)
            if got != want:
                F("query", "getfileoffset:" + qclass(a, want), "getfileoffset(%#x) = %r, the file maps it at %r" % (a, got, want))
        except Exception as ex:
            F("query-exc:%s@%s" % exc_sig(ex), "getfileoffset", "getfileoffset(%#x) raised %r" % (a, ex))
        if want is not None:
            k = min(4, room)
            try:
                got = p.data(a, k)
                if bytes(got) != blob[want:want + k]:
                    F("query", "data:" + qclass(a, want), "data(%#x,%d) = %r, file bytes %r" % (a, k, bytes(got), blob[want:want + k]))
            except Exception as ex:
                F("query-exc:%s@%s" % exc_sig(ex), "data", "data(%#x,%d) raised %r" % (a, k, ex))
    return out, n


# ------------------------------------------------------------------ samples cross-read
def sample_files():
    L = []
    for root, dirs, files in os.walk(SAMPLES):
        for f in sorted(files):
            L.append(os.path.join(root, f))
    return sorted(L)


def elf_sample_check(path):
    from amoco.system.elf import Elf
    out = []
    blob = open(path, "rb").read()
    if blob[:4] != b"\x7fELF":
        return out, 0
    ref = EI.read(blob)
    name = os.path.relpath(path, SAMPLES)
    cdesc = {"kind": "elf-sample", "file": name}

    def F(what, field, detail):
        out.append((("ELF-sample", what, field), "%s: %s" % (name, detail), cdesc))
    try:
        p = Elf(dataio(blob))
    except Exception as ex:
        F("parse-exc:%s@%s" % exc_sig(ex), "-", "Elf() raised %r" % (ex,))
        return out, 1
    n = 0
    for k, v in ref["ehdr"].items():
        n += 1
        if getattr(p.Ehdr, k, None) != v:
            F("field", "Ehdr." + k, "Ehdr.%s = %r, file encodes %r" % (k, getattr(p.Ehdr, k, None), v))
    known_pt = set([0, 1, 2, 3, 4, 5, 6, 7, 0x6474e550, 0x6474e551, 0x6474e552, 0x6474e553])
    # amoco drops segments of unknown type by design: compare the LOAD/INTERP/DYNAMIC ones
    want = [r for r in ref["phdrs"] if r["p_type"] in (1, 2, 3)]
    got = [a for a in p.Phdr if a.p_type in (1, 2, 3)]
    if len(want) != len(got):
        F("count", "Phdr", "%d LOAD/DYNAMIC/INTERP headers reported, file has %d" % (len(got), len(want)))
    else:
        for i, (a, r) in enumerate(zip(got, want)):
            for k, v in r.items():
                n += 1
                if getattr(a, k, None) != v:
                    F("field", "Phdr." + k, "Phdr[%d].%s = %r, file encodes %r" % (i, k, getattr(a, k, None), v))
    byname = dict((s.name, s) for s in p.Shdr)
    for r in ref["shdrs"]:
        nm = r.get("name")
        if nm in byname and nm:
            a = byname[nm]
            for k, v in r.items():
                if k == "name":
                    continue
                n += 1
                if getattr(a, k, None) != v:
                    F("field", "Shdr." + k, "Shdr[%s].%s = %r, file encodes %r" % (nm, k, getattr(a, k, None), v))
    if ".symtab" in ref["symtabs"]:
        want = ref["symtabs"][".symtab"]
        wf = dict((y["st_value"], y["name"]) for y in want if (y["st_info"] & 0xF) == 2 and y["st_value"])
        gf = dict((k, v[0]) for k, v in p.functions.items() if isinstance(v, tuple))
        for a, nmf in wf.items():
            n += 1
            if gf.get(a) not in (nmf,) and not any(y["st_value"] == a and y["name"] == gf.get(a) for y in want):
                F("field", "functions", "functions[%#x] = %r, symbol table says %r" % (a, gf.get(a), nmf))
                break
    return out, n


def pe_read(blob):
    """independent reader of the PE header chain"""
    lfanew = struct.unpack_from("<I", blob, 0x3C)[0]
    sig, machine, nsec, ts, psym, nsym, optsz, chars = struct.unpack_from("<IHHIIIHH", blob, lfanew)
    o = lfanew + 24
    magic = struct.unpack_from("<H", blob, o)[0]
    plus = magic == 0x20B
    names32 = ["Magic", "MajorLinkerVersion", "MinorLinkerVersion", "SizeOfCode", "SizeOfInitializedData", "SizeOfUninitializedData",
               "AddressOfEntryPoint", "BaseOfCode", "BaseOfData", "ImageBase", "SectionAlignment", "FileAlignment",
               "MajorOperatingSystemVersion", "MinorOperatingSystemVersion", "MajorImageVersion", "MinorImageVersion",
               "MajorSubsystemVersion", "MinorSubsystemVersion", "Win32VersionValue", "SizeOfImage", "SizeOfHeaders", "CheckSum",
               "Subsystem", "DllCharacteristics", "SizeOfStackReserve", "SizeOfStackCommit", "SizeOfHeapReserve", "SizeOfHeapCommit",
               "LoaderFlags", "NumberOfRvaAndSizes"]
    if plus:
        fmt = "<HBB" + "I" * 5 + "Q" + "II" + "H" * 6 + "I" * 4 + "HH" + "Q" * 4 + "II"
        names = [x for x in names32 if x != "BaseOfData"]
    else:
        fmt = "<HBB" + "I" * 9 + "H" * 6 + "I" * 4 + "HH" + "I" * 6
        names = names32
    vals = struct.unpack_from(fmt, blob, o)
    opt = dict(zip(names, vals))
    do = o + struct.calcsize(fmt)
    dirs = [struct.unpack_from("<II", blob, do + 8 * i) for i in range(min(opt["NumberOfRvaAndSizes"], 16))]
    so = lfanew + 24 + optsz
    secs = []
    for i in range(nsec):
        nm, vs, rva, rs, pr, prl, pln, nr, nl, ch = struct.unpack_from("<8sIIIIIIHHI", blob, so + 40 * i)
        secs.append(dict(Name=nm, VirtualSize=vs, RVA=rva, SizeOfRawData=rs, PointerToRawData=pr, PointerToRelocations=prl,
                         PointerToLineNumbers=pln, NumberOfRelocations=nr, NumberOfLineNumbers=nl, Characteristics=ch))
    return dict(e_lfanew=lfanew, NT=dict(Signature=sig, Machine=machine, NumberOfSections=nsec, TimeDateStamp=ts, PointerToSymbolTable=psym,
                                          NumberOfSymbols=nsym, SizeOfOptionalHeader=optsz, Characteristics=chars), Opt=opt, dirs=dirs, secs=secs)


IMPORT_MENUS = {
    # label -> list of (dll, [("name", hint, symbol) | ("ord", number), ...])
    "names": [("KERNEL32.dll", [("name", 1, "ExitProcess"), ("name", 0x22, "GetTickCount")])],
    "ord-first": [("WS2_32.dll", [("ord", 115), ("name", 7, "connect"), ("ord", 3)])],
    "mixed-2dll": [("KERNEL32.dll", [("name", 1, "ExitProcess"), ("ord", 42), ("name", 3, "Sleep")]),
                   ("USER32.dll", [("ord", 0xFFFF), ("name", 9, "MessageBoxA")])],
}


def pe_import_blob(plus, rva, imports):
    """import directory + lookup tables + address tables + hint/name table + dll names, laid out from rva;
    returns (bytes, directory size)"""
    esz = 8 if plus else 4
    ndesc = len(imports) + 1
    pos = 20 * ndesc
    ilt, iat, names, dlln = [], [], [], []
    for dll, ents in imports:
        ilt.append(pos); pos += esz * (len(ents) + 1)
    for dll, ents in imports:
        iat.append(pos); pos += esz * (len(ents) + 1)
    for dll, ents in imports:
        row = []
        for e in ents:
            if e[0] == "name":
                row.append(pos); pos += 2 + len(e[2]) + 1
                pos += pos & 1
            else:
                row.append(None)
        names.append(row)
    for dll, ents in imports:
        dlln.append(pos); pos += len(dll) + 1
    out = bytearray(pos)
    for k, (dll, ents) in enumerate(imports):
        struct.pack_into("<IIIII", out, 20 * k, rva + ilt[k], 0, 0, rva + dlln[k], rva + iat[k])
        for j, e in enumerate(ents):
            v = (rva + names[k][j]) if e[0] == "name" else ((1 << (8 * esz - 1)) | e[1])
            struct.pack_into("<Q" if plus else "<I", out, ilt[k] + esz * j, v)
            struct.pack_into("<Q" if plus else "<I", out, iat[k] + esz * j, v)
            if e[0] == "name":
                struct.pack_into("<H", out, names[k][j], e[1])
                out[names[k][j] + 2:names[k][j] + 2 + len(e[2])] = e[2].encode()
        out[dlln[k]:dlln[k] + len(dll)] = dll.encode()
    return bytes(out), 20 * ndesc


def pe_read_imports(blob):
    """independent import reader (PE/COFF spec, section 'The .idata Section'): {IAT slot virtual address: 'dll::symbol'}"""
    ref = pe_read(blob)
    plus = ref["Opt"]["Magic"] == 0x20B
    esz = 8 if plus else 4
    base = ref["Opt"]["ImageBase"]

    def off(rva):
        for s in ref["secs"]:
            if s["RVA"] <= rva < s["RVA"] + max(s["VirtualSize"], s["SizeOfRawData"]):
                return s["PointerToRawData"] + rva - s["RVA"]
        raise ValueError(rva)

    def cstr(o):
        return blob[o:blob.index(b"\0", o)].decode()
    if len(ref["dirs"]) < 2 or ref["dirs"][1][0] == 0:
        return {}
    D = {}
    o = off(ref["dirs"][1][0])
    while True:
        ilt, ts, fw, nm, iat = struct.unpack_from("<IIIII", blob, o)
        if (ilt, ts, fw, nm, iat) == (0, 0, 0, 0, 0):
            break
        dll = cstr(off(nm))
        lo = off(ilt or iat)
        k = 0
        while True:
            v = struct.unpack_from("<Q" if plus else "<I", blob, lo + esz * k)[0]
            if v == 0:
                break
            if v >> (8 * esz - 1):
                sym = "#%d" % (v & 0xFFFF)
            else:
                sym = cstr(off(v & 0x7FFFFFFF) + 2)
            D[base + iat + esz * k] = "%s::%s" % (dll, sym)
            k += 1
        o += 20
    return D


def pe_build(plus, nsec, ndirs, variant, optpad=0, imports=None, imp_sec=1):
    """minimal well-formed PE32/PE32+ image with nsec sections; optpad extra bytes follow the data
    directories inside the optional header (SizeOfOptionalHeader covers them); imports (a menu of
    IMPORT_MENUS) places an import directory at offset 0x40 of the second section"""
    lfanew = 0x80 + 8 * variant
    dos = bytearray(lfanew)
    dos[0:2] = b"MZ"
    struct.pack_into("<I", dos, 0x3C, lfanew)
    base = 0x400000 if not plus else 0x140000000
    falign, salign = 0x200, 0x1000
    optfmt = ("<HBB" + "I" * 5 + "Q" + "II" + "H" * 6 + "I" * 4 + "HH" + "Q" * 4 + "II") if plus else ("<HBB" + "I" * 9 + "H" * 6 + "I" * 4 + "HH" + "I" * 6)
    optsz = struct.calcsize(optfmt) + 8 * ndirs + optpad
    hdrs = lfanew + 24 + optsz + 40 * nsec
    sizeofheaders = (hdrs + falign - 1) // falign * falign
    secs = []
    raw = sizeofheaders
    for i in range(nsec):
        rs = 0x200 * (1 + (i + variant) % 2)
        vs = rs - 0x10 * (i + 1) if (i % 2 == 0) else rs + 0x300
        secs.append(dict(Name=[b".text\0\0\0", b".data\0\0\0", b".rsrc\0\0\0"][i], VirtualSize=vs, RVA=salign * (i + 1), SizeOfRawData=rs,
                         PointerToRawData=raw, PointerToRelocations=0, PointerToLineNumbers=0, NumberOfRelocations=0, NumberOfLineNumbers=0,
                         Characteristics=[0x60000020, 0xC0000040, 0x40000040][i]))
        raw += rs
    image = salign * (nsec + 1)
    vals = [0x20B if plus else 0x10B, 14, variant, 0x200, 0x400, 0, 0x1010, 0x1000]
    if not plus:
        vals.append(0x2000)
    vals += [base, salign, falign, 6, 0, 1, 2, 6, 0, 0, image, sizeofheaders, 0x1234 + variant, 3, 0x8140,
             0x100000, 0x1000, 0x100000, 0x1000, 0, ndirs]
    blob = bytearray(dos)
    blob += struct.pack("<IHHIIIHH", 0x4550, 0x8664 if plus else 0x14C, nsec, 0x5F000000 + variant, 0, 0, optsz, 0x22 if plus else 0x102)
    blob += struct.pack(optfmt, *vals)
    imp = None
    if imports and nsec > imp_sec and ndirs >= 2:
        imp = pe_import_blob(plus, secs[imp_sec]["RVA"] + 0x40, IMPORT_MENUS[imports])
    for i in range(ndirs):
        if i == 1 and imp:
            blob += struct.pack("<II", secs[imp_sec]["RVA"] + 0x40, imp[1])
        else:
            blob += struct.pack("<II", 0x3000 + 0x10 * i if i in (2, 5) else 0, 0x10 * i if i in (2, 5) else 0)
    blob += b"\xEE" * optpad
    for s in secs:
        blob += struct.pack("<8sIIIIIIHHI", s["Name"], s["VirtualSize"], s["RVA"], s["SizeOfRawData"], s["PointerToRawData"], 0, 0, 0, 0, s["Characteristics"])
    blob = blob.ljust(sizeofheaders, b"\0")
    for i, s in enumerate(secs):
        body = bytearray(((j * 3 + i * 17 + 1) & 0xFF) for j in range(s["SizeOfRawData"]))
        if i == imp_sec and imp:
            assert 0x40 + len(imp[0]) <= min(s["SizeOfRawData"], s["VirtualSize"])
            body[0x40:0x40 + len(imp[0])] = imp[0]
        blob += bytes(body)
    return bytes(blob)


def pe_check(blob, label, queries=True):
    from amoco.system.pe import PE
    out = []
    n = 0
    cdesc = {"kind": "pe", "label": label}

    def F(what, field, detail):
        out.append((("PE", what, field), "%s: %s" % (label, detail), cdesc))
    ref = pe_read(blob)
    try:
        p = PE(dataio(blob))
    except Exception as ex:
        F("parse-exc:%s@%s" % exc_sig(ex), "-", "PE() raised %r" % (ex,))
        return out, 1
    if p.DOS.e_lfanew != ref["e_lfanew"]:
        F("field", "DOS.e_lfanew", "e_lfanew %r vs %r" % (p.DOS.e_lfanew, ref["e_lfanew"]))
    for k, v in ref["NT"].items():
        n += 1
        if getattr(p.NT, k, None) != v:
            F("field", "NT." + k, "NT.%s = %r, file encodes %r" % (k, getattr(p.NT, k, None), v))
    for k, v in ref["Opt"].items():
        n += 1
        if getattr(p.Opt, k, None) != v:
            F("field", "Opt." + k, "Opt.%s = %r, file encodes %r" % (k, getattr(p.Opt, k, None), v))
    if len(p.Opt.DataDirectories) != len(ref["dirs"]):
        F("count", "DataDirectories", "%d data directories, file has %d" % (len(p.Opt.DataDirectories), len(ref["dirs"])))
    else:
        for (nm, d), (rva, sz) in zip(p.Opt.DataDirectories.items(), ref["dirs"]):
            n += 1
            if (d.RVA, d.Size) != (rva, sz):
                F("field", "DataDirectory", "directory %s = (%#x,%#x), file encodes (%#x,%#x)" % (nm, d.RVA, d.Size, rva, sz))
    if len(p.sections) != len(ref["secs"]):
        F("count", "sections", "%d sections, file has %d" % (len(p.sections), len(ref["secs"])))
    else:
        for i, (a, r) in enumerate(zip(p.sections, ref["secs"])):
            for k, v in r.items():
                n += 1
                g = getattr(a, k, None)
                if g != v:
                    F("field", "Section." + k, "section[%d].%s = %r, file encodes %r" % (i, k, g, v))
    want_entry = ref["Opt"]["ImageBase"] + ref["Opt"]["AddressOfEntryPoint"]
    if p.entrypoints[0] != want_entry:
        F("field", "entrypoints", "entry %#x vs %#x" % (p.entrypoints[0], want_entry))
    # imported functions: {IAT slot address: "dll::symbol"} versus the independent import reader
    try:
        want_f = pe_read_imports(blob)
    except Exception:
        want_f = None      # the sample's import directory is beyond the reference reader
    if want_f is not None:
        n += 1 + len(want_f)
        got_f = dict(p.functions)
        if got_f != want_f:
            ks = sorted(set(got_f) | set(want_f))
            k = next(k for k in ks if got_f.get(k) != want_f.get(k))
            F("imports", "functions", "functions[%#x] = %r, the import tables encode %r (%d slots reported, %d encoded)" % (
                k, got_f.get(k), want_f.get(k), len(got_f), len(want_f)))
    if queries:
        base = ref["Opt"]["ImageBase"]
        for i, r in enumerate(ref["secs"]):
            for a in (r["RVA"] - 1, r["RVA"], r["RVA"] + 1, r["RVA"] + min(r["VirtualSize"], r["SizeOfRawData"]) - 1):
                n += 1
                inside = None
                for j, q in enumerate(ref["secs"]):
                    if q["RVA"] <= a < q["RVA"] + q["VirtualSize"]:
                        inside = j
                        break
                try:
                    s, off = p.locate(a)
                    if inside is not None:
                        if s is None or isinstance(s, int) or s.RVA != ref["secs"][inside]["RVA"] or off != a - ref["secs"][inside]["RVA"]:
                            F("query", "locate", "locate(%#x) = (%r,%r), file maps it to section %d offset %#x" % (a, s, off, inside, a - ref["secs"][inside]["RVA"]))
                        else:
                            q = ref["secs"][inside]
                            if a - q["RVA"] < q["SizeOfRawData"]:
                                fo = p.getfileoffset(base + a)
                                if fo != q["PointerToRawData"] + (a - q["RVA"]):
                                    F("query", "getfileoffset", "getfileoffset(%#x) = %r, file maps it at %#x" % (base + a, fo, q["PointerToRawData"] + (a - q["RVA"])))
                                d = p.getdata(a)[:4]
                                w = blob[q["PointerToRawData"] + (a - q["RVA"]):][:4]
                                k = min(len(w), q["SizeOfRawData"] - (a - q["RVA"]), 4)
                                if bytes(d[:k]) != w[:k]:
                                    F("query", "getdata", "getdata(%#x)[:%d] = %r, file bytes %r" % (a, k, bytes(d[:k]), w[:k]))
                except Exception as ex:
                    F("query-exc:%s@%s" % exc_sig(ex), "locate", "locate/getdata(%#x) raised %r" % (a, ex))
    return out, n


def macho_build(is64, nsect, variant, layout="plain"):
    """layout 'zerofill': __PAGEZERO before and a zero-fill segment (no file content) after __TEXT"""
    MH = 0xFEEDFACF if is64 else 0xFEEDFACE
    hdr_fmt = "<IiiIIII" + ("I" if is64 else "")
    segname = b"__TEXT".ljust(16, b"\0")
    sect_fmt = "<16s16sQQIIIIIIII" if is64 else "<16s16sIIIIIIIII"
    seg_fmt = "<II16sQQQQiiII" if is64 else "<II16sIIIIiiII"
    base = 0x100000000 if is64 else 0x1000
    segsz = struct.calcsize(seg_fmt) + nsect * struct.calcsize(sect_fmt)
    symtab_cmd = struct.pack("<IIIIII", 2, 24, 0, 0, 0, 0)
    main_cmd = struct.pack("<IIQQ", 0x80000028, 24, 0x200 + 4 * variant, 0)
    pre = post = b""
    if layout == "zerofill":
        pre = struct.pack(seg_fmt, 0x19 if is64 else 1, struct.calcsize(seg_fmt), b"__PAGEZERO".ljust(16, b"\0"), 0, base, 0, 0, 0, 0, 0, 0)
        post = struct.pack(seg_fmt, 0x19 if is64 else 1, struct.calcsize(seg_fmt), b"__BSS".ljust(16, b"\0"), base + 0x3000, 0x1000, 0, 0, 3, 3, 0, 0)
    ncmds = 3 + (2 if layout == "zerofill" else 0)
    sizeofcmds = segsz + len(symtab_cmd) + len(main_cmd) + len(pre) + len(post)
    hdr = struct.pack(hdr_fmt, *([MH, 0x01000007 if is64 else 7, 3, 2, ncmds, sizeofcmds, 0x85 + variant] + ([0] if is64 else [])))
    filesize = 0x400
    seg = struct.pack(seg_fmt, 0x19 if is64 else 1, segsz, segname, base, 0x1000, 0, filesize, 7, 5, nsect, 0)
    sects = b""
    descr = []
    for i in range(nsect):
        addr = base + 0x200 + 0x80 * i
        size = 0x40 + 0x10 * i
        off = 0x200 + 0x80 * i
        nm = [b"__text", b"__const"][i].ljust(16, b"\0")
        if is64:
            sects += struct.pack(sect_fmt, nm, segname, addr, size, off, 2, 0, 0, 0x80000400 if i == 0 else 0, 0, 0, 0)
        else:
            sects += struct.pack(sect_fmt, nm, segname, addr, size, off, 2, 0, 0, 0x80000400 if i == 0 else 0, 0, 0)
        descr.append(dict(name=nm.rstrip(b"\0"), addr=addr, size=size, offset=off))
    blob = (hdr + pre + seg + sects + post + symtab_cmd + main_cmd)
    assert len(blob) <= 0x200
    blob = blob.ljust(0x200, b"\0")
    blob += bytes(((j * 11 + 5) & 0xFF) for j in range(filesize - 0x200))
    return bytes(blob), dict(magic=MH, ncmds=ncmds, nsegs=1 + (2 if layout == "zerofill" else 0), text_index=1 if layout == "zerofill" else 0, sizeofcmds=sizeofcmds, flags=0x85 + variant, vmaddr=base, vmsize=0x1000, filesize=filesize,
                             sects=descr, entry=base + 0x200 + 4 * variant, cputype=0x01000007 if is64 else 7)


def macho_check(blob, d, label):
    from amoco.system.macho import MachO
    out = []
    n = 0
    cdesc = {"kind": "macho", "label": label}

    def F(what, field, detail):
        out.append((("MachO", what, field), "%s: %s" % (label, detail), cdesc))
    try:
        p = MachO(dataio(blob))
    except Exception as ex:
        F("parse-exc:%s@%s" % exc_sig(ex), "-", "MachO() raised %r" % (ex,))
        return out, 1
    for k in ("magic", "ncmds", "sizeofcmds", "flags", "cputype"):
        n += 1
        if getattr(p.header, k, None) != d[k]:
            F("field", "header." + k, "header.%s = %r, file encodes %r" % (k, getattr(p.header, k, None), d[k]))
    segs = [c for c in p.cmds if getattr(c, "cmd", None) in (1, 0x19)]
    if len(segs) != d.get("nsegs", 1):
        F("count", "segments", "%d segment commands, file has %d" % (len(segs), d.get("nsegs", 1)))
        return out, n
    s = segs[d.get("text_index", 0)]
    for k, v in (("vmaddr", d["vmaddr"]), ("vmsize", d["vmsize"]), ("filesize", d["filesize"]), ("nsects", len(d["sects"]))):
        n += 1
        if getattr(s, k, None) != v:
            F("field", "segment." + k, "segment.%s = %r, file encodes %r" % (k, getattr(s, k, None), v))
    if len(s.sections) != len(d["sects"]):
        F("count", "sections", "%d sections, file has %d" % (len(s.sections), len(d["sects"])))
    else:
        for a, r in zip(s.sections, d["sects"]):
            for k, v in (("addr", r["addr"]), ("size_", r["size"]), ("offset", r["offset"])):
                n += 1
                if getattr(a, k, None) != v:
                    F("field", "section." + k, "section %s.%s = %r, file encodes %r" % (r["name"], k, getattr(a, k, None), v))
    try:
        e = p.entrypoints
        if e != [d["entry"]]:
            F("field", "entrypoints", "entrypoints %r, LC_MAIN says %#x" % (e, d["entry"]))
    except Exception as ex:
        F("entry-exc:%s@%s" % exc_sig(ex), "entrypoints", "entrypoints raised %r" % (ex,))
    for r in d["sects"]:
        for a in (r["addr"] - 1, r["addr"], r["addr"] + r["size"] - 1, r["addr"] + r["size"]):
            n += 1
            try:
                x, off, vaddr = p.getinfo(a)
                inside = [q for q in d["sects"] if q["addr"] <= a < q["addr"] + q["size"]]
                if inside:
                    q = inside[0]
                    if getattr(x, "addr", None) != q["addr"] or off != a - q["addr"] or vaddr != q["addr"]:
                        F("query", "getinfo", "getinfo(%#x) = (%r,%r,%r), file maps it to section at %#x" % (a, x, off, vaddr, q["addr"]))
                elif d["vmaddr"] <= a < d["vmaddr"] + d["vmsize"]:
                    if getattr(x, "vmaddr", None) != d["vmaddr"] or off != a - d["vmaddr"]:
                        F("query", "getinfo", "getinfo(%#x) = (%r,%r,%r), file maps it to the segment at %#x" % (a, x, off, vaddr, d["vmaddr"]))
            except Exception as ex:
                F("query-exc:%s@%s" % exc_sig(ex), "getinfo", "getinfo(%#x) raised %r" % (a, ex))
    return out, n


# ------------------------------------------------------------------ HEX / SREC
def hexline(code, addr, data):
    body = bytes([len(data), (addr >> 8) & 0xFF, addr & 0xFF, code]) + data
    ck = (-sum(body)) & 0xFF
    return b":" + body.hex().upper().encode() + b"%02X" % ck


def srecline(t, addr, data):
    alen = {0: 2, 1: 2, 2: 3, 3: 4, 5: 2, 6: 3, 7: 4, 8: 3, 9: 2}[t]
    body = bytes([alen + len(data) + 1]) + addr.to_bytes(alen, "big") + data
    ck = (~sum(body)) & 0xFF
    return b"S%d" % t + body.hex().upper().encode() + b"%02X" % ck


def hex_streams():
    D = lambda n, k: bytes(((i * 9 + k) & 0xFF) for i in range(n))
    S = []
    for n in (0, 1, 2, 16, 255):
        for addr in (0, 1, 0xFFF0, 0xFFFF - n if n else 0xFFFF):
            S.append(([("data", addr & 0xFFFF, D(n, 3))], "data%d@%x" % (n, addr)))
    S.append(([("esa", 0x1000), ("data", 0x10, D(4, 1))], "esa"))
    S.append(([("ela", 0x0800), ("data", 0x10, D(4, 2))], "ela"))
    S.append(([("esa", 0x1000), ("data", 0x10, D(4, 1)), ("ela", 0x0002), ("data", 0x20, D(4, 5))], "esa-then-ela"))
    S.append(([("ela", 0x0002), ("data", 0x10, D(4, 1)), ("esa", 0x1000), ("data", 0x20, D(4, 5))], "ela-then-esa"))
    S.append(([("esa", 0x1000), ("ela", 0x0000), ("data", 0x20, D(4, 5))], "ela0-after-esa"))
    S.append(([("ela", 0x0002), ("esa", 0x0000), ("data", 0x20, D(4, 5))], "esa0-after-ela"))
    # every sequence of up to three base-address records (segment bases with non-zero low bits included), data after each
    menu = [("esa", 0x1234), ("esa", 0x0FF0), ("ela", 0x0800), ("ela", 0x0002)]
    for k in (2, 3):
        for seq in itertools.product(menu, repeat=k):
            recs = []
            for j, r in enumerate(seq):
                recs.append(r)
                recs.append(("data", 0x20 + 0x10 * j, D(4, j + 1)))
            S.append((recs, "-then-".join(r[0] for r in seq)))
    S.append(([("data", 0, D(2, 1)), ("ssa", 0x1234, 0x5678)], "start-segment"))
    S.append(([("data", 0, D(2, 1)), ("sla", 0x08001234)], "start-linear"))
    return S


def hex_check():
    from amoco.system.structs.HEX import HEX, HEXline, HEXError
    from amoco.system.memory import MemoryMap
    out = []
    n = 0
    for recs, label in hex_streams():
        lines = []
        exp = []
        base = 0
        entry = None
        for r in recs:
            if r[0] == "data":
                lines.append(hexline(0, r[1], r[2]))
                exp.append((base + r[1], r[2]))
            elif r[0] == "esa":
                lines.append(hexline(2, 0, r[1].to_bytes(2, "big")))
                base = r[1] * 16
            elif r[0] == "ela":
                lines.append(hexline(4, 0, r[1].to_bytes(2, "big")))
                base = r[1] << 16
            elif r[0] == "ssa":
                lines.append(hexline(3, 0, r[1].to_bytes(2, "big") + r[2].to_bytes(2, "big")))
                entry = ("ssa", (r[1], r[2]))
            elif r[0] == "sla":
                lines.append(hexline(5, 0, r[1].to_bytes(4, "big")))
                entry = ("sla", r[1])
        lines.append(hexline(1, 0, b""))
        blob = b"\n".join(lines) + b"\n"
        cdesc = {"kind": "hex", "label": label}
        n += 1
        try:
            p = HEX(dataio(blob))
            if len(p.L) != len(lines):
                out.append((("HEX", "count", "records"), "%s: %d records parsed, %d encoded" % (label, len(p.L), len(lines)), cdesc))
            for l, (r) in zip(p.L, recs):
                if r[0] == "data" and (l.HEXcode != 0 or l.address != r[1] or l.data != r[2] or l.count != len(r[2])):
                    out.append((("HEX", "field", "data-record"), "%s: data record decoded as (%r,%r,%r)" % (label, l.HEXcode, l.address, l.data), cdesc))
            mm = MemoryMap()
            p.load_binary(mm)
            for addr, data in exp:
                if not data:
                    continue
                got = mm.read(addr, len(data))
                if b"".join(x if isinstance(x, bytes) else b"?" * (x.size // 8) for x in got) != data:
                    out.append((("HEX", "address", label if "after" in label or "then" in label else "plain"),
                                "%s: %d data bytes expected at %#x are not there after load_binary" % (label, len(data), addr), cdesc))
                    break
            if entry is not None:
                want = entry[1]
                if p.entrypoints != [want]:
                    out.append((("HEX", "field", "entrypoint-" + entry[0]), "%s: entrypoints %r, start record says %r" % (label, p.entrypoints, want), cdesc))
        except Exception as ex:
            out.append((("HEX", "parse-exc:%s@%s" % exc_sig(ex), label), "%s: raised %r" % (label, ex), cdesc))
    # every single-nibble corruption of a record must be rejected
    good = hexline(0, 0x1234, bytes([0x10, 0x22, 0x3C, 0x4F]))
    hexd = b"0123456789ABCDEF"
    for pos in range(1, len(good)):
        for c in hexd:
            if good[pos:pos + 1] == bytes([c]):
                continue
            bad = good[:pos] + bytes([c]) + good[pos + 1:]
            n += 1
            try:
                l = HEXline(bad)
                # a corruption that yields another *valid* record is impossible for a single nibble (checksum)
                out.append((("HEX", "corruption-accepted", "nibble"), "corrupted record %r (position %d) accepted" % (bad, pos), {"kind": "hex", "label": "corrupt", "line": bad.decode()}))
                break
            except HEXError:
                pass
            except Exception as ex:
                out.append((("HEX", "corruption-exc:%s" % type(ex).__name__, "nibble"), "corrupted record %r raised %r instead of HEXError" % (bad, ex),
                            {"kind": "hex", "label": "corrupt", "line": bad.decode()}))
                break
    return out, n


def srec_check():
    from amoco.system.structs.SREC import SREC, SRECline, SRECError
    from amoco.system.memory import MemoryMap
    out = []
    n = 0
    D = lambda k, s: bytes(((i * 7 + s) & 0xFF) for i in range(k))
    streams = []
    for t, amax in ((1, 0xFFFF), (2, 0xFFFFFF), (3, 0xFFFFFFFF)):
        for k in (0, 1, 2, 16, 250):
            for addr in (0, 1, amax - k):
                streams.append(([(0, 0, b"HDR"), (t, addr, D(k, t)), (5, 1, b""), ({1: 9, 2: 8, 3: 7}[t], 0x100 if addr == 0 else addr, b"")], "S%d/%d@%x" % (t, k, addr)))
    for recs, label in streams:
        blob = b"\n".join(srecline(t, a, d) for t, a, d in recs) + b"\n"
        cdesc = {"kind": "srec", "label": label}
        n += 1
        try:
            p = SREC(dataio(blob))
            if len(p.L) != len(recs):
                out.append((("SREC", "count", "records"), "%s: %d records parsed, %d encoded" % (label, len(p.L), len(recs)), cdesc))
            for l, (t, a, d) in zip(p.L, recs):
                if l.SRECtype != t or l.address != a or l.data != d:
                    out.append((("SREC", "field", "S%d" % t), "%s: record S%d decoded as (type %r, address %#x, data %r)" % (label, t, l.SRECtype, l.address, l.data[:6]), cdesc))
                    break
            mm = MemoryMap()
            p.load_binary(mm)
            t, a, d = recs[1]
            if d:
                got = mm.read(a, len(d))
                if b"".join(x if isinstance(x, bytes) else b"?" for x in got) != d:
                    out.append((("SREC", "address", "S%d" % t), "%s: data not found at %#x after load_binary" % (label, a), cdesc))
            st = recs[-1]
            if p.entrypoints != [st[1]]:
                out.append((("SREC", "field", "entrypoint"), "%s: entrypoints %r, start record says %#x" % (label, p.entrypoints, st[1]), cdesc))
        except Exception as ex:
            out.append((("SREC", "parse-exc:%s@%s" % exc_sig(ex), label.split("/")[0]), "%s: raised %r" % (label, ex), cdesc))
    good = srecline(1, 0x1234, bytes([0x10, 0x22, 0x3C, 0x4F]))
    hexd = b"0123456789ABCDEF"
    for pos in range(2, len(good)):
        for c in hexd:
            if good[pos:pos + 1] == bytes([c]):
                continue
            bad = good[:pos] + bytes([c]) + good[pos + 1:]
            n += 1
            try:
                p = SREC(dataio(bad + b"\n"))
                out.append((("SREC", "corruption-accepted", "checksum" if pos >= 4 else "count"), "corrupted record %r (position %d) accepted" % (bad, pos),
                            {"kind": "srec", "label": "corrupt", "line": bad.decode()}))
                break
            except SRECError:
                pass
            except Exception as ex:
                out.append((("SREC", "corruption-exc:%s" % type(ex).__name__, "nibble"), "corrupted record %r raised %r instead of SRECError" % (bad, ex),
                            {"kind": "srec", "label": "corrupt", "line": bad.decode()}))
                break
    return out, n


# ------------------------------------------------------------------ driver
def unit(args):
    kind, payload = args
    fails = []
    n = 0
    try:
        if kind == "elf":
            for c in payload:
                r = elf_check(c)
                out, k = r if isinstance(r, tuple) else (r, 0)
                n += k
                for sig, what, case in out:
                    fails.append(Failure(sig, what, case, rank=len(json.dumps(case))).to_json())
        elif kind == "elf-sample":
            out, n = elf_sample_check(payload)
            fails = [Failure(s, w, c).to_json() for s, w, c in out]
        elif kind == "pe-sample":
            blob = open(payload, "rb").read()
            out, n = pe_check(blob, os.path.relpath(payload, SAMPLES), queries=True)
            fails = [Failure(s, w, c).to_json() for s, w, c in out]
        elif kind == "pe":
            for (plus, nsec, ndirs, variant, optpad, imp) in payload:
                out, k = pe_check(pe_build(plus, nsec, ndirs, variant, optpad, imp),
                                  "PE32%s/%dsec/%ddirs/v%d/pad%d%s" % ("+" if plus else "", nsec, ndirs, variant, optpad, "/imports:" + imp if imp else ""))
                n += k
                fails += [Failure(s, w, dict(c, gen=[plus, nsec, ndirs, variant, optpad, imp])).to_json() for s, w, c in out]
        elif kind == "macho":
            for (is64, nsect, variant, lay) in payload:
                blob, d = macho_build(is64, nsect, variant, lay)
                out, k = macho_check(blob, d, "MachO%d/%dsect/v%d/%s" % (64 if is64 else 32, nsect, variant, lay))
                n += k
                fails += [Failure(s, w, dict(c, gen=[is64, nsect, variant, lay])).to_json() for s, w, c in out]
        elif kind == "hex":
            out, n = hex_check()
            fails = [Failure(s, w, c).to_json() for s, w, c in out]
        elif kind == "srec":
            out, n = srec_check()
            fails = [Failure(s, w, c).to_json() for s, w, c in out]
    except Exception as ex:
        fails.append(Failure(("harness", kind, type(ex).__name__), "harness error in %s: %r" % (kind, ex), {"kind": kind}).to_json())
    return fails, n


def run(tier, seed):
    rep = Report("C14", "model_checking")
    E = elf_cases(tier)
    jobs = []
    nch = core.NPROC * 2
    for i in range(nch):
        if E[i::nch]:
            jobs.append(("elf", E[i::nch]))
    files = sample_files()
    for f in files:
        head = open(f, "rb").read(4)
        if head == b"\x7fELF":
            jobs.append(("elf-sample", f))
        elif head[:2] == b"MZ":
            jobs.append(("pe-sample", f))
    pes = [(plus, nsec, ndirs, v, pad, None) for plus in (False, True) for nsec in (1, 2, 3) for ndirs in (0, 2, 10, 16)
           for v in ((0, 1, 2) if tier == "thorough" else (0, 1)) for pad in (0, 8, 48)]
    pes += [(plus, nsec, ndirs, 1, 0, imp) for plus in (False, True) for nsec in (2, 3) for ndirs in (2, 16) for imp in sorted(IMPORT_MENUS)]
    jobs.append(("pe", pes))
    machos = [(is64, ns, v, lay) for is64 in (False, True) for ns in (0, 1, 2) for v in (0, 1) for lay in ("plain", "zerofill")]
    jobs.append(("macho", machos))
    jobs.append(("hex", None))
    jobs.append(("srec", None))
    jobs = core.rotate(jobs, seed)
    res = core.pmap(unit, jobs, chunksize=1)
    n = 0
    for fl, k in res:
        n += k
        for f in fl:
            rep.add(Failure.from_json(f))
    rep.failures.sort(key=lambda f: (f.sig, f.rank))
    nfiles = len(E) + len(pes) + len(machos) + len([j for j in jobs if j[0].endswith("sample")])
    rep.coverage.update({
        "states": nfiles, "transitions": n, "traces_validated_against_impl": nfiles,
        "evaluations": n, "distinct_nontrivial": nfiles,
        "rule": "ELF: every image of the lattice class{32,64} x byte order x 5 segment sets (LOAD/INTERP/NOTE/GNU_STACK, bss tail) x section "
                "sets x 0..3 symbols x table placement x entry padding x shstrtab position, written by an independent struct-based writer: "
                "every Ehdr/Phdr/Shdr/Sym field, names, functions/variables, entry, readsegment/readsection, getfileoffset and data at every "
                "segment/section boundary +-1; shipped ELF and PE samples cross-read field by field; generated PE32/PE32+ (1-3 sections, "
                "0/2/16 directories) and Mach-O 32/64 (0-2 sections, LC_SYMTAB, LC_MAIN) with locate/getdata/getfileoffset/getinfo at boundaries; "
                "HEX and SREC record streams (all data lengths/boundary addresses/extended-address sequences) and every single-nibble corruption",
        "elf_images": len(E), "pe_images": len(pes), "macho_images": len(machos), "sample_files": len([j for j in jobs if j[0].endswith("sample")]),
        "samples": [{k: v for k, v in E[len(E) // 2].items() if k != "_args"}],
    })
    return rep


def replay(case):
    k = case.get("kind")
    if k == "elf":
        for c in elf_cases("thorough"):
            if all(c.get(x) == case.get(x) for x in ("cls", "msb", "segs", "secs", "nsyms", "layout", "entpad", "shstr_last")):
                r = elf_check(c)
                out = r[0] if isinstance(r, tuple) else r
                return [Failure(s, w, cc) for s, w, cc in out]
    if k in ("hex",):
        return [Failure(s, w, c) for s, w, c in hex_check()[0]]
    if k == "srec":
        return [Failure(s, w, c) for s, w, c in srec_check()[0]]
    if k == "pe" and "gen" in case:
        g = case["gen"]
        return [Failure(s, w, c) for s, w, c in pe_check(pe_build(*g), case["label"])[0]]
    if k == "macho" and "gen" in case:
        g = case["gen"]
        blob, d = macho_build(*g)
        return [Failure(s, w, c) for s, w, c in macho_check(blob, d, case["label"])[0]]
    return []
