"""C11 -- decoding has no memory of earlier calls.
Explicit-state exploration of decode-call histories on one real disassembler
object per ISA mode; reference outcomes come from fresh processes in which the
call is the very first one."""
import json, os
import multiprocessing as mp
from amc import core, isas
from amc.core import Failure, Report, exc_sig
from amc.gen import specwords


def render(i):
    try:
        ops = [str(o) for o in i.operands]
    except Exception:
        ops = ["?"]
    misc = sorted((str(k), str(v)) for k, v in i.misc.items() if v is not None)
    return [i.bytes.hex(), str(i.mnemonic), ops, i.type, misc]


def outcome2(cpu, b):
    """(outcome, instruction object or None)"""
    d = cpu.disassemble
    try:
        i = d(b)
    except Exception as ex:
        return ["exc", type(ex).__name__], None
    if i is None:
        return None, None
    return render(i), i


def outcome(cpu, b):
    return outcome2(cpu, b)[0]


def operand_variants(isa, d, S, order):
    """x86/x64: the first ModRM specs with the addressing forms that take a code path of their own in getModRM
    (SIB without base + disp32, disp32 / RIP-relative, SIB with index, disp8) under two different displacements each, so that
    two calls of one history meet in whatever object such a path might share"""
    if isa not in ("x86", "x64"):
        return []
    from amc.ref import fmtlang
    out = []
    done = 0
    for s in S:
        if s.pfx is True:
            continue
        try:
            fs = fmtlang.parse(s.format)
        except Exception:
            continue
        mr = specwords.modrm_fields(fs) if fs.variable else None
        if not mr or s.fix.size != 16:
            continue
        Mod, RM, REG = mr
        nb = fs.nbits // 8
        for (mod, rm, sib) in ((0, 4, 0x25), (0, 5, None), (2, 4, 0x4B), (0, 4, 0x8D)):
            w = (fs.fix | (mod << Mod.lo) | (rm << RM.lo)).to_bytes(nb, "little")
            for disp in (b"\x44\x33\x22\x11", b"\x88\x77\x66\x55"):
                b = w + (bytes([sib]) if sib is not None else b"") + disp + b"\x00" * 6
                setattr(d, "_disassembler__i", None)
                try:
                    i = d(b)
                except Exception:
                    i = None
                setattr(d, "_disassembler__i", None)
                if i is not None:
                    out.append(b[:len(i.bytes)])
        done += 1
        if done >= 1:
            break
    return out


def pending(cpu):
    return getattr(cpu.disassemble, "_disassembler__i", None)


def build_menu(isa, mode):
    """(runs in a child) list of (class, hex bytes)"""
    cpu = isas.load(isa)
    isas.set_mode(cpu, mode)
    d = cpu.disassemble
    S = isas.flatten(d.specs[d.iset()])
    e = d.endian()
    order = "little" if e == 1 else "big"
    menu = []
    prefixes = []
    valids = []
    suffix = []
    minlen = min(s.fix.size // 8 for s in S)
    has_pfx = any(s.pfx is True for s in S)
    nvalid = 6 if has_pfx else 2
    plain = [s for s in S if s.pfx is not True]
    stride = max(1, len(plain) // nvalid)
    preferred = set(id(s) for s in plain[::stride])
    for s in S:
        nb = s.fix.size // 8
        w = s.fix.ival.to_bytes(nb, order)
        if s.pfx is True:
            if w not in prefixes:
                prefixes.append(w)
            continue
        if s.pfx != "xdata" and id(s) not in preferred:
            continue
        if len(valids) >= nvalid and (s.pfx != "xdata" or suffix):
            continue
        for tail in (b"", b"\x00" * 14, specwords.INC):
            b = w + tail
            setattr(d, "_disassembler__i", None)
            try:
                i = d(b)
            except Exception:
                i = None
            setattr(d, "_disassembler__i", None)
            if i is not None and not (i.spec.pfx is True):
                if s.pfx == "xdata":
                    if not suffix:
                        suffix.append(b)
                elif len(valids) < nvalid and b[:len(i.bytes)] not in [v[:len(i.bytes)] for v in valids]:
                    valids.append(b)
                break
    undec = None
    for v in list(range(255, -1, -1)):
        b = bytes([v]) * max(d.maxlen, 4)
        setattr(d, "_disassembler__i", None)
        try:
            if d(b) is None:
                undec = b
                break
        except Exception:
            continue
    setattr(d, "_disassembler__i", None)
    for v in valids:
        menu.append(("valid", v.hex()))
    for v in operand_variants(isa, d, S, order):
        menu.append(("valid-addressing", v.hex()))
    prefixes = prefixes[:5]
    for p in prefixes:
        menu.append(("prefix-only", p.hex()))
        for v in valids[:3]:
            menu.append(("prefix+valid", (p + v).hex()))
        if undec:
            menu.append(("prefix+undecodable", (p + undec).hex()))
    if len(prefixes) >= 2:
        menu.append(("2prefix-only", (prefixes[0] + prefixes[1]).hex()))
        menu.append(("2prefix-only", (prefixes[1] + prefixes[1]).hex()))
    if undec:
        menu.append(("undecodable", undec.hex()))
    menu.append(("empty", ""))
    if minlen > 1 and valids:
        menu.append(("short", valids[0][:minlen - 1].hex()))
    for s_ in suffix:
        menu.append(("suffix", s_.hex()))
    # inputs on which a setup function raises (witnesses of the C17 known findings + live check)
    raising = []
    for f in core.load_known().get("findings", []):
        if f["property"] == "C17" and f["signature"][0] == isa and f["signature"][2] == "decode" \
                and f["signature"][1] == isas.mode_name(mode):
            raising.append(bytes.fromhex(f["witness"]["bytes"]))
    raising = raising[:4]
    for r in raising:
        menu.append(("raises", r.hex()))
        for p in prefixes[:2]:
            menu.append(("prefix+raises", (p + r).hex()))
    # de-duplicate, keep order
    seen = set()
    out = []
    for c, h in menu:
        if h not in seen:
            seen.add(h)
            out.append((c, h))
    return out


def _child(q, fn, args):
    core.quiet_amoco()
    try:
        q.put(("ok", fn(*args)))
    except Exception as ex:
        q.put(("err", repr(ex)))


def in_fresh_process(fn, *args):
    ctx = mp.get_context("fork")
    q = ctx.Queue()
    p = ctx.Process(target=_child, args=(q, fn, args))
    p.start()
    r = q.get(timeout=300)
    p.join()
    if r[0] == "err":
        raise RuntimeError(r[1])
    return r[1]


def first_call(isa, mode, h):
    cpu = isas.load(isa)
    isas.set_mode(cpu, mode)
    return outcome(cpu, bytes.fromhex(h))


def ref_unit(args):
    """reference outcome of one menu item as the very first call of a fresh process"""
    isa, mode, h = args
    return first_call(isa, mode, h)      # the pool runs one task per forked child


def explore_mode(args):
    isa, mode, menu, refs, depth = args
    return _explore(isa, mode, menu, refs, depth)


def classify_real(cls, out):
    if out is not None and out and out[0] == "exc":
        return cls if "raises" in cls else cls + "(raises)"
    return cls


def _explore(isa, mode, menu, refs, depth):
    cpu = isas.load(isa)
    isas.set_mode(cpu, mode)
    d = cpu.disassemble
    mname = isas.mode_name(mode)
    fails = []
    stats = {"sequences": 0, "calls": 0, "states": set(), "outcomes": set(), "retained": 0}
    cls_of = dict((h, c) for c, h in menu)
    items = [h for c, h in menu]
    import itertools

    def record(seq, k, what, leaked, obs, exp_):
        earlier = classify_real(cls_of[seq[k - 1]], refs[seq[k - 1]]) if k > 0 else "-"
        later = cls_of[seq[k]]
        sig = (isa, mname, "call=" + later, leaked) if leaked == "pending" else (isa, mname, "after=" + earlier, "then=" + later, leaked)
        fails.append(Failure(sig, "%s %s: after decode calls %r the call %r %s (observed %r, fresh process %r)" % (
            isa, mname, list(seq[:k]), seq[k], what, obs, exp_),
            {"isa": isa, "mode": mode, "calls": list(seq[:k + 1])}, rank=k).to_json())

    for n in range(1, depth + 1):
        for seq in itertools.product(items, repeat=n):
            setattr(d, "_disassembler__i", None)
            isas.set_mode(cpu, mode)
            stats["sequences"] += 1
            bad = False
            kept = []
            for k, h in enumerate(seq):
                o, ins = outcome2(cpu, bytes.fromhex(h))
                kept.append(ins)
                stats["calls"] += 1
                p = pending(cpu)
                stats["states"].add("None" if p is None else p.bytes.hex())
                stats["outcomes"].add(json.dumps(o))
                if o != refs[h]:
                    what = "leaked"
                    leaked = "outcome"
                    if o is not None and refs[h] is not None and o[0] != "exc" and refs[h][0] != "exc":
                        if o[0] != refs[h][0]:
                            leaked = "bytes"
                        elif o[4] != refs[h][4]:
                            leaked = "misc"
                        elif o[2] != refs[h][2]:
                            leaked = "operands"
                    record(seq, k, "differs from its first-call outcome", leaked, o, refs[h])
                    bad = True
                    break
                if p is not None:
                    record(seq, k, "left a pending prefix instruction %s behind" % p.bytes.hex(), "pending", p.bytes.hex(), None)
                    bad = True
                    break
            if bad:
                continue
            # instructions returned by earlier calls must still read as they did when they were returned
            for k, ins in enumerate(kept[:-1]):
                if ins is None:
                    continue
                stats["retained"] += 1
                o = render(ins)
                if o != refs[seq[k]]:
                    j = k + 1
                    for j in range(k + 1, len(seq)):
                        if kept[j] is not None:
                            break
                    sig = (isa, mname, "returned=" + cls_of[seq[k]], "later=" + cls_of[seq[j]], "retained-instruction")
                    fails.append(Failure(sig, "%s %s: the instruction returned by call %d of %r reads %r after the later calls (it was %r when "
                                              "returned, as in a fresh process)" % (isa, mname, k, list(seq), o, refs[seq[k]]),
                                         {"isa": isa, "mode": mode, "calls": list(seq), "retained": k}, rank=len(seq)).to_json())
                    break
    stats["states"] = sorted(stats["states"])
    stats["outcomes"] = len(stats["outcomes"])
    return {"fails": fails, "stats": stats}


def menu_unit(args):
    isa, mode = args
    return build_menu(isa, mode)


def run(tier, seed):
    rep = Report("C11", "model_checking")
    depth = 3 if tier == "quick" else 4
    modes = core.rotate(isas.modes(), seed)
    ctx = mp.get_context("fork")
    # parent must stay free of cpu modules: everything ISA specific happens in children
    with ctx.Pool(core.NPROC, initializer=core._init_worker, maxtasksperchild=1) as pool:
        menus = core._watched_map(pool, menu_unit, modes, 1)
        ref_jobs = [(isa, mode, h) for (isa, mode), menu in zip(modes, menus) for (c, h) in menu]
        ref_out = core._watched_map(pool, ref_unit, ref_jobs, 1)
        refs = {}
        for (isa, mode, h), o in zip(ref_jobs, ref_out):
            refs.setdefault((isa, isas.mode_name(mode)), {})[h] = o
        jobs = [(isa, mode, menu, refs[(isa, isas.mode_name(mode))], depth) for (isa, mode), menu in zip(modes, menus)]
        res = core._watched_map(pool, explore_mode, jobs, 1)
    seqs = calls = 0
    retained = 0
    allstates = 0
    per = []
    for (isa, mode), menu, r in zip(modes, menus, res):
        seqs += r["stats"]["sequences"]
        calls += r["stats"]["calls"]
        retained += r["stats"].get("retained", 0)
        allstates += len(r["stats"]["states"])
        per.append({"isa": isa, "mode": isas.mode_name(mode), "menu": len(menu), "sequences": r["stats"]["sequences"],
                    "pending_states_seen": r["stats"]["states"][:6], "distinct_outcomes": r["stats"]["outcomes"],
                    "classes": sorted(set(c for c, h in menu))})
        for f in r["fails"]:
            rep.add(Failure.from_json(f))
    rep.failures.sort(key=lambda f: (f.rank, f.sig))
    rep.coverage.update({
        "states": max(1, allstates), "transitions": calls, "traces_validated_against_impl": seqs,
        "evaluations": calls, "distinct_nontrivial": sum(p["distinct_outcomes"] for p in per),
        "rule": "per ISA mode a menu of decode calls (valid, prefix+valid, each prefix alone, two prefixes, prefix+undecodable, "
                "undecodable, empty, too short, suffix, inputs on which a setup function raises with and without a prefix); every "
                "sequence of menu calls up to the depth is run on the one real disassembler object; state = pending prefix "
                "instruction; after every call the pending instruction must be None and every outcome must equal the outcome "
                "of the same call made first in a fresh process; the instruction objects returned by the earlier calls of a "
                "history are kept and must still render (bytes, mnemonic, operands, type, misc) as in the fresh process after the "
                "later calls (x86/x64 menus hold one ModRM instruction in each addressing form of getModRM under two displacements)",
        "retained_instructions_rechecked": retained,
        "depth": depth, "per_mode": per,
        "samples": [{"isa": per[0]["isa"], "calls": [m for m in menus[0][:3]]}],
        "closed_below_bound": True,
    })
    rep.assumptions = ["reference outcomes are computed in fresh forked processes where the call is the first decode"]
    return rep


def replay(case):
    isa, mode, calls = case["isa"], case["mode"], case["calls"]
    ref = in_fresh_process(first_call, isa, mode, calls[-1])

    def seq():
        cpu = isas.load(isa)
        isas.set_mode(cpu, mode)
        o = None
        kept = []
        for h in calls:
            o, ins = outcome2(cpu, bytes.fromhex(h))
            kept.append(ins)
        p = pending(cpu)
        r = None
        if case.get("retained") is not None and kept[case["retained"]] is not None:
            r = render(kept[case["retained"]])
        return o, (None if p is None else p.bytes.hex()), r
    o, p, r = in_fresh_process(seq)
    out = []
    if case.get("retained") is not None:
        ref_k = in_fresh_process(first_call, isa, mode, calls[case["retained"]])
        if r != ref_k:
            out.append(Failure((isa, "retained-instruction"), "instruction of call %d reads %r after %r, fresh %r" % (case["retained"], r, calls, ref_k), case))
        return out
    if o != ref:
        out.append(Failure((isa, "outcome"), "after %r: %r, fresh %r" % (calls[:-1], o, ref), case))
    if p is not None:
        out.append(Failure((isa, "pending"), "pending prefix %s left behind" % p, case))
    return out
