"""C18 -- sweeps, blocks and control-flow graphs partition the code.
(a) enumeration: every start address of synthetic code regions per ISA: sweep,
    basic blocks, block slicing and cutting;
(b) explicit-state search: all histories of block insertions into cfg.graph."""
import json, itertools
from amc import core, isas
from amc.core import Failure, Report, exc_sig
from amc.gen import specwords

SWEEP_ISAS = ["x86", "x64", "armv7", "mips", "mipsle", "sparc", "rv32i", "sh2", "w65c02", "z80", "msp430", "tricore", "v850", "pic18"]


# ------------------------------------------------------------------ (a) sweep/blocks
def build_region(cpu, isa, nmax=48):
    """concatenate decodable instruction words (one per k-th spec), control flow included"""
    d = cpu.disassemble
    S = isas.flatten(d.specs[d.iset()])
    e = d.endian()
    order = "little" if e == 1 else "big"
    words = []
    cf = 0
    step = max(1, len(S) // 400)
    for s in S[::step]:
        if s.pfx:
            continue
        for b in specwords.cases_for_spec(isa, s, e, d.maxlen, "quick"):
            if not b:
                continue
            setattr(d, "_disassembler__i", None)
            try:
                i = d(b)
            except Exception:
                setattr(d, "_disassembler__i", None)
                continue
            if i is None or i.length != len(b) and len(b) < i.length:
                continue
            w = bytes(i.bytes)
            iscf = (i.type == 2)
            if iscf and cf >= nmax // 4:
                break
            if w in words:
                break
            words.append(w)
            cf += 1 if iscf else 0
            break
        if len(words) >= nmax:
            break
    return b"".join(words)


def delay_regions(cpu, isa, tier):
    """ISAs with delayed branches: every sequence of length 4 over {delayed branch, other control flow, plain}
    followed by two plain instructions, swept from its first instruction (a control-flow instruction may sit in
    a delay slot; a delayed branch may follow a delayed branch)"""
    d = cpu.disassemble
    S = isas.flatten(d.specs[d.iset()])
    e = d.endian()
    cls = {}
    for s in S:
        if len(cls) == 3:
            break
        if s.pfx:
            continue
        for b in specwords.cases_for_spec(isa, s, e, d.maxlen, "quick"):
            if not b:
                continue
            setattr(d, "_disassembler__i", None)
            try:
                i = d(b)
            except Exception:
                setattr(d, "_disassembler__i", None)
                continue
            if i is None or i.length != len(b):
                continue
            k = "D" if i.misc.get("delayed", False) else ("C" if i.type == 2 else "N")
            cls.setdefault(k, bytes(i.bytes))
            break
    if "D" not in cls or "C" not in cls or "N" not in cls:
        return []
    out = []
    for seq in itertools.product("DCN", repeat=4 if tier == "quick" else 5):
        if "D" not in seq:
            continue
        out.append((b"".join(cls[k] for k in seq) + cls["N"] * 2, [0]))
    return out


def ref_sequence(cpu, buf, start):
    """independent fetch loop: list of (addr, length, is_cf, delayed)"""
    d = cpu.disassemble
    out = []
    a = start
    while a < len(buf):
        setattr(d, "_disassembler__i", None)
        try:
            i = d(buf[a:a + d.maxlen])
        except Exception as ex:
            setattr(d, "_disassembler__i", None)
            out.append(("exc", type(ex).__name__))
            break
        if i is None:
            break
        out.append((a, i.length, i.type == 2, bool(i.misc.get("delayed", False)), bytes(i.bytes)))
        a += i.length
    return out


def ref_blocks(seq):
    blocks, cur, delay = [], [], False
    for it in seq:
        if it[0] == "exc":
            break
        cur.append(it)
        if it[3]:
            delay = True
        elif it[2] or delay:
            blocks.append(cur)
            cur, delay = [], False
    if cur:
        blocks.append(cur)
    return blocks


def sweep_unit(args):
    isa, tier = args
    import amoco
    from amoco.sa import lsweep
    cpu = isas.load(isa)
    fails = []
    stats = {"starts": 0, "instructions": 0, "blocks": 0, "slices": 0, "cuts": 0}
    main = build_region(cpu, isa, 64 if tier == "thorough" else 40)
    REG = [(main, None, None)] + [(b, st, None) for (b, st) in delay_regions(cpu, isa, tier)]
    # the same region written into memory in three adjacent pieces (as record-based loaders do), cut inside instructions
    seq0 = [x for x in ref_sequence(cpu, main, 0) if x[0] != "exc"]
    inner = [x[0] + 1 for x in seq0 if x[1] >= 2]
    if len(inner) >= 2:
        REG.append((main, [0], (inner[len(inner) // 3], inner[(2 * len(inner)) // 3])))
    stats["regions"] = len(REG)
    for buf, only_starts, pieces in REG:

        def F(what, detail, start, rank=0):
            fails.append(Failure((isa, "sweep" if pieces is None else "sweep-pieces", what), "%s region %s%s start %d: %s" % (
                isa, buf.hex()[:64], "" if pieces is None else " written in pieces cut at %r" % (pieces,), start, detail),
                                 {"kind": "sweep", "isa": isa, "region": buf.hex(), "start": start}, rank=rank).to_json())
        try:
            if pieces is None:
                p = amoco.load_program(buf, cpu=cpu)
            else:
                k1, k2 = pieces
                p = amoco.load_program(buf[:k1], cpu=cpu)
                p.state.mmap.write(k1, buf[k1:k2])
                p.state.mmap.write(k2, buf[k2:])
        except Exception as ex:
            F("load-exc:%s@%s" % exc_sig(ex), "load_program raised %r" % (ex,), 0)
            continue
        psz = cpu.PC().size
        for start in (only_starts if only_starts is not None else range(0, min(len(buf), 64 if tier == "quick" else 128))):
            stats["starts"] += 1
            seq = ref_sequence(cpu, buf, start)
            if seq and seq[-1][0] == "exc":
                seq = seq[:-1]
                raises = True
            else:
                raises = False
            z = lsweep(p)
            got = []
            try:
                for i in z.sequence(cpu.cst(start, psz)):
                    got.append((i.address.v if hasattr(i.address, "v") else int(i.address), i.length))
                    if len(got) > len(seq) + 2:
                        break
            except Exception as ex:
                if not raises:
                    # reading beyond the mapped region raises MemoryError by design at the very end
                    if not (isinstance(ex, MemoryError) and (not seq or seq[-1][0] + seq[-1][1] >= len(buf))):
                        F("sequence-exc:%s@%s" % exc_sig(ex), "sequence raised %r after %d instructions" % (ex, len(got)), start)
                        continue
            stats["instructions"] += len(got)
            want = [(a, n) for (a, n, *_r) in seq]
            if got[:len(want)] != want[:len(got)] or (not raises and len(got) != len(want)):
                k = next((j for j in range(min(len(got), len(want))) if got[j] != want[j]), min(len(got), len(want)))
                F("sequence", "instruction %d: sweep yields %r, independent fetch loop %r" % (k, got[k:k + 2], want[k:k + 2]), start)
                continue
            for a, b in zip(got, got[1:]):
                if b[0] != a[0] + a[1]:
                    F("consecutive", "instruction at %#x (length %d) followed by %#x" % (a[0], a[1], b[0]), start)
                    break
            if raises:
                continue
            # blocks
            want_blocks = ref_blocks(seq)
            try:
                blocks = list(lsweep(p).iterblocks(cpu.cst(start, psz)))
            except MemoryError:
                blocks = None
            except Exception as ex:
                F("iterblocks-exc:%s@%s" % exc_sig(ex), "iterblocks raised %r" % (ex,), start)
                continue
            if blocks is None:
                # the sweep ran off the mapped region: re-collect what was produced before the error
                blocks = []
                try:
                    for b in lsweep(p).iterblocks(cpu.cst(start, psz)):
                        blocks.append(b)
                except MemoryError:
                    pass
            stats["blocks"] += len(blocks)
            gb = [[(i.address.v, i.length) for i in b.instr] for b in blocks]
            wb = [[(a, n) for (a, n, *_r) in blk] for blk in want_blocks]
            if gb[:len(wb)] != wb[:len(gb)] or abs(len(gb) - len(wb)) > 1:
                k = next((j for j in range(min(len(gb), len(wb))) if gb[j] != wb[j]), min(len(gb), len(wb)))
                F("block-partition", "block %d is %r, expected the maximal run %r" % (k, gb[k] if k < len(gb) else None, wb[k] if k < len(wb) else None), start)
                continue
            for b, blk in zip(blocks, want_blocks):
                a0 = blk[0][0]
                tot = sum(x[1] for x in blk)
                sup = b.support
                if (sup[0].v if hasattr(sup[0], "v") else sup[0]) != a0 or (sup[1].v if hasattr(sup[1], "v") else sup[1]) != a0 + tot:
                    F("support", "block at %#x: support %s, expected (%#x,%#x)" % (a0, sup, a0, a0 + tot), start)
                    break
                if b.raw() != buf[a0:a0 + tot] or b.length != tot:
                    F("raw", "block at %#x: raw() %s differs from the region bytes %s" % (a0, b.raw().hex(), buf[a0:a0 + tot].hex()), start)
                    break
                # slicing at every pair of boundaries / a non-boundary
                offs = [0]
                for x in blk:
                    offs.append(offs[-1] + x[1])
                bad = False
                for ia in range(len(offs)):
                    for ib in range(ia + 1, len(offs)):
                        stats["slices"] += 1
                        try:
                            sub = b[offs[ia]:offs[ib]]
                        except Exception as ex:
                            F("slice-exc:%s@%s" % exc_sig(ex), "block[%d:%d] raised %r" % (offs[ia], offs[ib], ex), start)
                            bad = True
                            break
                        exp_ = [(x[0], x[1]) for x in blk[ia:ib]]
                        if sub is None or [(i.address.v, i.length) for i in sub.instr] != exp_:
                            F("slice", "block[%d:%d] gives %r expected %r" % (offs[ia], offs[ib], None if sub is None else [(i.address.v, i.length) for i in sub.instr], exp_), start)
                            bad = True
                            break
                    if bad:
                        break
                if bad:
                    break
                nonb = [o for o in range(1, tot) if o not in offs]
                if nonb:
                    try:
                        if b[nonb[0]:tot] is not None:
                            F("slice-nonboundary", "block[%d:%d] at a non-boundary returned a block" % (nonb[0], tot), start)
                            break
                    except Exception as ex:
                        F("slice-exc:%s@%s" % exc_sig(ex), "block[%d:%d] raised %r" % (nonb[0], tot, ex), start)
                        break
                # cut at every boundary (on fresh blocks)
                for k in range(len(blk)):
                    stats["cuts"] += 1
                    import copy
                    bb = type(b)(list(b.instr))
                    try:
                        nrem = bb.cut(cpu.cst(blk[k][0], psz))
                    except Exception as ex:
                        F("cut-exc:%s@%s" % exc_sig(ex), "cut(%#x) raised %r" % (blk[k][0], ex), start)
                        bad = True
                        break
                    if nrem != len(blk) - k or [(i.address.v, i.length) for i in bb.instr] != [(x[0], x[1]) for x in blk[:k]]:
                        F("cut", "cut(%#x) removed %r and kept %r; expected %d removed, prefix of %d kept" % (
                            blk[k][0], nrem, [(i.address.v) for i in bb.instr], len(blk) - k, k), start)
                        bad = True
                        break
                if bad:
                    break
                # cut at every address that is not an instruction boundary (inside and just outside the support):
                # nothing may be removed
                others = [a0 + o for o in nonb] + [a0 - 1, a0 + tot, a0 + tot + 1]
                for adr in others:
                    if adr < 0:
                        continue
                    stats["cuts"] += 1
                    bb = type(b)(list(b.instr))
                    try:
                        nrem = bb.cut(cpu.cst(adr, psz))
                    except Exception as ex:
                        F("cut-exc:%s@%s" % exc_sig(ex), "cut(%#x) raised %r" % (adr, ex), start)
                        bad = True
                        break
                    if nrem != 0 or [(i.address.v, i.length) for i in bb.instr] != [(x[0], x[1]) for x in blk]:
                        F("cut-nonboundary", "cut(%#x) at an address that starts no instruction of the block removed %r and kept %r; expected nothing removed" % (
                            adr, nrem, [(i.address.v) for i in bb.instr]), start)
                        bad = True
                        break
                if bad:
                    break
    return {"fails": fails, "stats": stats}


# ------------------------------------------------------------------ (b) CFG insertion
STREAM = bytes.fromhex("90" "31c0" "83c001" "40" "b844332211" "01d8")   # lengths 1 2 3 1 5 2


def decode_stream(n):
    from amoco.arch.x86 import cpu_x86 as cpu
    d = cpu.disassemble
    out = []
    a = 0
    while a < len(STREAM) and len(out) < n:
        setattr(d, "_disassembler__i", None)
        i = d(STREAM[a:a + 15])
        i.address = cpu.cst(0x1000 + a, 32)
        out.append(i)
        a += i.length
    return out


def fresh_node(instrs, i, j):
    from amoco import cfg, code
    import copy
    return cfg.node(code.block([copy.copy(x) for x in instrs[i:j]]))


def support_state(G):
    rows = []
    for o in G.support._map:
        n = o.data.val
        try:
            ia = tuple(i.address.v for i in n.data.instr)
        except Exception:
            ia = ("?",)
        rows.append((o.vaddr.v if hasattr(o.vaddr, "v") else o.vaddr, len(o.data), ia))
    ov = None
    if G.overlay is not None:
        ov = tuple((o.vaddr.v if hasattr(o.vaddr, "v") else o.vaddr, len(o.data)) for o in G.overlay._map)
    edges = sorted((e.v[0].data.address.v if e.v[0].data.address is not None else -1,
                    e.v[1].data.address.v if e.v[1].data.address is not None else -1) for e in G.E())
    return (tuple(rows), ov, tuple(edges))


def relation(rows, s, e):
    """relation of the run [s,e) to the existing support rows (addr, len, instr addrs)"""
    rel = []
    for (a, n, ia) in rows:
        b = a + n
        if e < a or s > b:
            continue
        if e == a:
            rel.append("adjacent-before")
        elif s == b:
            rel.append("adjacent-after")
        elif s == a and e == b:
            rel.append("same")
        elif s == a:
            rel.append("same-start-" + ("shorter" if e < b else "longer"))
        elif a < s < b:
            rel.append("inside" if e <= b else "inside+beyond")
        elif s < a:
            rel.append("swallows" if e >= b else "overlaps-head")
    # primary relation only (one root cause per relation class)
    for pr in ("same", "same-start-shorter", "same-start-longer", "inside", "inside+beyond", "overlaps-head", "swallows",
               "adjacent-before", "adjacent-after"):
        if pr in rel:
            return pr
    return "disjoint"


def check_history(instrs, addrs, hist):
    """replay a history of insertions on a fresh graph; returns (failure tuple or None, state, relation of last)"""
    from amoco import cfg
    G = cfg.graph()
    inserted = set()
    rel = "first"
    for k, (i, j) in enumerate(hist):
        rows = [(a, n, ia) for (a, n, ia) in support_state(G)[0]]
        s, e = addrs[i], addrs[j]
        rel = relation(rows, s, e)
        split_at = None
        for (a, n, ia) in rows:
            if a < s < a + n:
                split_at = s
        try:
            G.add_vertex(fresh_node(instrs, i, j))
        except Exception as ex:
            if k < len(hist) - 1:
                return ("prefix-failed", None, None), None, rel
            return ("exc:%s@%s" % exc_sig(ex), "add_vertex raised %r" % (ex,), None), None, rel
        inserted |= set(addrs[i:j])
        st = support_state(G)
        if k < len(hist) - 1:
            continue
        rows2, ov, edges = st
        # invariants
        try:
            ext = sorted((a, a + n) for (a, n, ia) in rows2)
        except TypeError:
            return ("bad-support", "support rows %r" % (rows2,), None), st, rel
        for (a1, b1), (a2, b2) in zip(ext, ext[1:]):
            if a2 < b1:
                return ("overlap", "support nodes [%#x,%#x) and [%#x,%#x) overlap" % (a1, b1, a2, b2), None), st, rel
        for (a, n, ia) in rows2:
            real = sum(x.length for x in instrs if x.address.v in ia)
            if "?" in ia or real != n:
                return ("extent", "support entry at %#x has extent %d but its block holds %d bytes (%r)" % (a, n, real, ia), None), st, rel
        allia = [x for (a, n, ia) in rows2 for x in ia]
        if sorted(allia) != sorted(inserted):
            dup = sorted(set(x for x in allia if allia.count(x) > 1))
            miss = sorted(inserted - set(allia))
            what = "duplicate-instr" if dup else ("missing-instr" if miss else "extra-instr")
            return (what, "support holds instruction addresses %r, inserted so far %r (missing %r, duplicated %r)" % (
                [hex(x) for x in sorted(allia)], [hex(x) for x in sorted(inserted)], [hex(x) for x in miss], [hex(x) for x in dup]), None), st, rel
        if ov:
            return ("overlay-used", "blocks on instruction boundaries ended up in the overlay zone: %r" % (ov,), None), st, rel
        if split_at is not None:
            starts = dict((a, (a, n)) for (a, n, ia) in rows2)
            prev = [a for (a, n, ia) in rows2 if a + n == split_at]
            if split_at not in starts or not prev or (prev[0], split_at) not in edges:
                return ("missing-edge", "block split at %#x but no fall-through edge from the truncated block (edges %r)" % (
                    split_at, [(hex(x), hex(y)) for x, y in edges]), None), st, rel
    return None, support_state(G), rel


def cfg_unit(args):
    N, depth, shard, nshards = args
    instrs = decode_stream(N)
    addrs = [i.address.v for i in instrs] + [instrs[-1].address.v + instrs[-1].length]
    runs = [(i, j) for i in range(N) for j in range(i + 1, N + 1)]
    fails = []
    stats = {"histories": 0, "states": 0, "transitions": 0, "nondet": 0}
    seen = set()
    failing = set()
    frontier = [[r] for k, r in enumerate(runs) if k % nshards == shard]
    for d in range(depth):
        nxt = []
        for hist in frontier:
            stats["histories"] += 1
            stats["transitions"] += 1
            bad, st, rel = check_history(instrs, addrs, hist)
            if bad is not None:
                if bad[0] == "prefix-failed":
                    continue
                fails.append(Failure(("cfg", "rel=" + rel, bad[0]),
                                     "insertion history %r (runs of instruction indexes, stream lengths 1,2,3,1,5,2 at 0x1000): %s" % (hist, bad[1]),
                                     {"kind": "cfg", "N": N, "hist": hist}, rank=len(hist)).to_json())
                continue
            key = (st, tuple(sorted(set(x for (i, j) in hist for x in range(i, j)))))
            if key in seen:
                continue
            seen.add(key)
            stats["states"] += 1
            if stats["states"] % 200 == 0:
                _, st2, _ = check_history(instrs, addrs, hist)
                if st2 != st:
                    stats["nondet"] += 1
            if d + 1 < depth:
                for r in runs:
                    nxt.append(hist + [r])
        frontier = nxt
    return {"fails": fails, "stats": stats}


# ------------------------------------------------------------------ (c) getblock is a function of the address
GB_STREAM = bytes.fromhex("90" "31c0" "eb00" "83c001" "40" "c3" "b844332211" "01d8")   # nop; xor; jmp +0; add; inc; ret; mov; add


def getblock_unit(args):
    """every history (up to the depth) of getblock(a) / cut the block last returned / insert it into a graph, on ONE
    lsweep object: each getblock(a) must return the maximal run from a to the next control-flow instruction"""
    depth, shard, nshards = args
    import amoco
    from amoco.sa import lsweep
    from amoco import cfg
    from amoco.arch.x86 import cpu_x86 as cpu
    fails = []
    stats = {"histories": 0, "checks": 0}
    # independent partition
    d = cpu.disassemble
    starts, cf = [], []
    a = 0
    while a < len(GB_STREAM):
        setattr(d, "_disassembler__i", None)
        i = d(GB_STREAM[a:a + 15])
        starts.append(a)
        cf.append(i.type == 2)
        a += i.length

    def expected(k):
        out = []
        for j in range(k, len(starts)):
            out.append(starts[j])
            if cf[j]:
                break
        return out
    ops = [("get", k) for k in range(len(starts))] + [("cut", k) for k in range(1, len(starts))] + [("insert",)]
    for dpt in range(1, depth + 1):
        for idx, hist in enumerate(itertools.product(ops, repeat=dpt)):
            if idx % nshards != shard or hist[-1][0] != "get" or not any(o[0] == "get" for o in hist[:-1]):
                continue
            stats["histories"] += 1
            p = amoco.load_program(GB_STREAM, cpu=cpu)
            z = lsweep(p)
            G = cfg.graph()
            last = None
            try:
                for op in hist:
                    if op[0] == "get":
                        b = z.getblock(cpu.cst(starts[op[1]], 32))
                        stats["checks"] += 1
                        got = [i.address.v for i in b.instr] if b is not None else None
                        if got != expected(op[1]):
                            fails.append(Failure(("getblock", "history-dependent", "after:" + "+".join(sorted(set(o[0] for o in hist[:-1])))),
                                                 "history %r on one lsweep object: getblock(%#x) holds %r, the maximal run is %r" % (
                                                     list(hist), starts[op[1]], got, expected(op[1])),
                                                 {"kind": "getblock", "hist": [list(o) for o in hist]}, rank=len(hist)).to_json())
                            break
                        last = b
                    elif op[0] == "cut" and last is not None:
                        last.cut(cpu.cst(starts[op[1]], 32))
                    elif op[0] == "insert" and last is not None and len(last.instr) > 0:
                        G.add_vertex(cfg.node(last))
            except Exception:
                pass        # raising insertions are part (b)'s business
    return {"fails": fails, "stats": stats}


def run(tier, seed):
    rep = Report("C18", "model_checking")
    res = core.pmap(sweep_unit, [(isa, tier) for isa in core.rotate(SWEEP_ISAS, seed)])
    tot = {"starts": 0, "instructions": 0, "blocks": 0, "slices": 0, "cuts": 0}
    for r in res:
        for k in tot:
            tot[k] += r["stats"][k]
        for f in r["fails"]:
            rep.add(Failure.from_json(f))
    N, depth = (5, 3) if tier == "quick" else (6, 4)
    NS = 15 if tier == "quick" else 21
    res = core.pmap(cfg_unit, [(N, depth, k, NS) for k in range(NS)])
    ctot = {"histories": 0, "states": 0, "transitions": 0, "nondet": 0}
    for r in res:
        for k in ctot:
            ctot[k] += r["stats"][k]
        for f in r["fails"]:
            rep.add(Failure.from_json(f))
    gres = core.pmap(getblock_unit, [(3 if tier == "quick" else 4, k, 16) for k in range(16)])
    gtot = {"histories": 0, "checks": 0}
    for r in gres:
        for k in gtot:
            gtot[k] += r["stats"][k]
        for f in r["fails"]:
            rep.add(Failure.from_json(f))
    ctot["histories"] += gtot["histories"]
    ctot["transitions"] += gtot["checks"]
    ctot["getblock"] = gtot
    if ctot["nondet"]:
        rep.harness_errors.append("cfg replay nondeterminism %d" % ctot["nondet"])
    rep.failures.sort(key=lambda f: (f.rank, f.sig, json.dumps(f.case, sort_keys=True)))
    rep.coverage.update({
        "states": ctot["states"] + tot["starts"], "transitions": ctot["transitions"] + tot["instructions"],
        "traces_validated_against_impl": ctot["histories"] + tot["starts"],
        "evaluations": ctot["histories"] + tot["slices"] + tot["cuts"] + tot["instructions"],
        "distinct_nontrivial": ctot["states"] + tot["blocks"],
        "rule": "(a) per ISA with a raw loader a region of decodable instruction words (control flow and delay slots included) is "
                "loaded; for every start address of a 64-byte window: lsweep.sequence versus an independent fetch loop, consecutive "
                "addresses, iterblocks versus the maximal-run partition, support/raw/length of each block, block[a:b] for every pair "
                "of boundaries and a non-boundary, cut at every boundary and at every non-boundary address; for ISAs with delayed "
                "branches additionally every sequence of length 4 over {delayed branch, other control flow, plain}; (b) one x86 stream of N=%d instructions (lengths 1,2,3,1,5,2): "
                "every history of <=%d insertions of contiguous runs (all %d runs) into cfg.graph, BFS with de-duplication on "
                "(support, overlay, edges, inserted set); after each insertion: support nodes pairwise disjoint, extents equal block "
                "lengths, every inserted instruction exactly once, overlay unused, fall-through edge at every split; (c) every history of "
                "getblock / cut of the returned block / graph insertion on one lsweep object: getblock(a) is the maximal run from a" % (N, depth, N * (N + 1) // 2),
        "sweep": tot, "cfg": ctot,
        "samples": [{"kind": "cfg", "hist": [[0, 3], [1, 2]]}, {"kind": "sweep", "isa": "mips", "starts": "0..63"}],
    })
    return rep


def replay(case):
    if case["kind"] == "cfg":
        instrs = decode_stream(case["N"])
        addrs = [i.address.v for i in instrs] + [instrs[-1].address.v + instrs[-1].length]
        bad, st, rel = check_history(instrs, addrs, [tuple(x) for x in case["hist"]])
        return [Failure(("cfg", "rel=" + rel, bad[0]), str(bad[1]), case)] if bad else []
    if case["kind"] == "getblock":
        r = getblock_unit((len(case["hist"]), 0, 1))
        return [Failure.from_json(f) for f in r["fails"] if Failure.from_json(f).case.get("hist") == case["hist"]]
    r = sweep_unit((case["isa"], "quick"))
    return [Failure.from_json(f) for f in r["fails"] if Failure.from_json(f).case.get("start") == case.get("start")]
