"""C08 -- abstract memory is a last-write-wins byte store.
Explicit-state exploration of write/copy/restruct/shift/merge histories on the
real MemoryMap/MemoryZone against a dict address -> byte reference."""
import itertools, json
from amc import core
from amc.core import Failure, Report, exc_sig
from amc.ref import bv

OFFS = list(range(6))
READ_A = list(range(-1, 11))
READ_L = list(range(1, 6))
PVAL = {"p": 0x1000, "q": 0x2000}


def initmem(addr):
    return (addr * 7 + 3) & 0xFF


# ----------------------------------------------------------------- alphabet
def payload_menu(full):
    P = [("raw", 1), ("raw", 2), ("raw", 4)]
    P += [("reg", 32, 1), ("reg", 32, -1), ("cst", 16, 1), ("cst", 16, -1)]
    if full:
        P += [("reg", 16, 1), ("reg", 16, -1), ("cst", 32, 1), ("cst", 32, -1),
              ("cmpA", 32, 1), ("cmpA", 32, -1), ("cmpB", 32, 1), ("cmpB", 32, -1)]
    return P


def write_ops(zones, full, offs=OFFS):
    return [("w", z, o, p) for z in zones for p in payload_menu(full) for o in offs]


def regval(s, n):
    return int.from_bytes(bytes([0x80 + s * 8 + j for j in range(n)]), "little")


def cstval(s, n):
    return int.from_bytes(bytes([0x40 + s * 8 + j for j in range(n)]), "little")


def make_payload(p, s):
    """returns (amoco object or bytes, memory-order byte values, endian or None, kind)"""
    from amoco.cas.expressions import reg, cst, composer
    k = p[0]
    if k == "raw":
        b = bytes([1 + s * 4 + i for i in range(p[1])])
        return b, list(b), None
    size, E = p[1], p[2]
    n = size // 8
    if k == "reg":
        obj = reg("r%d" % s, size)
        V = regval(s, n)
    elif k == "cst":
        V = cstval(s, n)
        obj = cst(V, size)
    elif k == "cmpA":
        r = reg("r%d" % s, 16)
        obj = composer([r, cst(cstval(s, 2), 16)])
        V = regval(s, 2) | (cstval(s, 2) << 16)
    elif k == "cmpB":
        r = reg("r%d" % s, 32)
        obj = composer([r[8:24], cst(cstval(s, 2), 16)])
        V = ((regval(s, 4) >> 8) & 0xFFFF) | (cstval(s, 2) << 16)
    mem = [(V >> (8 * i)) & 0xFF for i in range(n)]
    if E == -1:
        mem.reverse()
    return obj, mem, E


def regenv(nsteps=8):
    regs = {"r%d" % s: regval(s, 8) for s in range(nsteps)}
    regs.update(PVAL)
    return regs


def zone_addr(z, off):
    from amoco.cas.expressions import reg, cst, ptr
    if z == "int":
        return off
    if z == "cst":
        return cst(off, 32)
    if z == "cstw":
        # a pointer with a constant base whose displacement wraps the address size: the same concrete address
        return ptr(cst(0xFFFFFFF8, 32), disp=8 + off)
    return ptr(reg(z, 32), disp=off)


def zkey(z):
    return None if z in ("int", "cst", "cstw") else z


# ----------------------------------------------------------------- model
class Ref(object):
    """dict (zone, addr) -> (byte value, endian of the writer or None, writer id, kind)"""
    def __init__(self):
        self.d = {}
        self.nw = 0

    def copy(self):
        r = Ref()
        r.d = dict(self.d)
        r.nw = self.nw
        return r

    def write(self, zk, off, membytes, E, kind):
        wid = self.nw
        self.nw += 1
        for i, b in enumerate(membytes):
            self.d[(zk, off + i)] = (b, E, wid, kind)

    def shift(self, zk, k):
        nd = {}
        for (z, a), v in self.d.items():
            nd[(z, a + k if z == zk else a)] = v
        self.d = nd

    def overlay(self, other):
        for key, (b, E, wid, kind) in other.d.items():
            self.d[key] = (b, E, wid + 1000, kind)

    def canon(self):
        return tuple(sorted((str(z), a, v[0]) for (z, a), v in self.d.items()))

    def topology(self, zk, a, b):
        """relation of the interval [a,b) to the visible segments of earlier writers"""
        segs = {}
        for (z, x), v in self.d.items():
            if z == zk:
                segs.setdefault(v[2], []).append(x)
        rels = []
        for wid, xs in segs.items():
            xs.sort()
            kind = self.d[(zk, xs[0])][3]
            # maximal runs
            run = [xs[0], xs[0] + 1]
            runs = []
            for x in xs[1:]:
                if x == run[1]:
                    run[1] = x + 1
                else:
                    runs.append(run)
                    run = [x, x + 1]
            runs.append(run)
            for (s, e) in runs:
                if b < s or a > e:
                    continue
                if b == s:
                    rel = "touchL"
                elif a == e:
                    rel = "touchR"
                elif a == s and b == e:
                    rel = "eq"
                elif a <= s and b >= e:
                    rel = "cover"
                elif a > s and b < e:
                    rel = "inside"
                elif a <= s:
                    rel = "left" if a < s else "leftal"
                elif b >= e:
                    rel = "right" if b > e else "rightal"
                else:
                    rel = "?"
                rels.append("%s:%s" % (rel, "raw" if kind in ("raw", "cst") else "exp"))
        return ",".join(sorted(rels)) or "fresh"


# ----------------------------------------------------------------- harness
def canon_map(mm):
    out = []
    for k, z in mm._zones.items():
        zs = []
        for o in z._map:
            zs.append((o.vaddr, "raw" if o.data._is_raw else "exp", str(o.data), o.data.endian))
        out.append((str(k), tuple(zs), tuple(getattr(z, "_MemoryZone__cache"))))
    return tuple(sorted(out))


def flatten(parts, ref, zk, a, env):
    """observed per-byte values (None = undefined) of a read result"""
    out = []
    x = a
    for p in parts:
        if isinstance(p, (bytes, bytearray)):
            out.extend(list(p))
            x += len(p)
            continue
        if not hasattr(p, "etype"):
            raise TypeError("unexpected part %r" % (p,))
        n = p.size // 8
        if p.size % 8:
            raise ValueError("part size %d not a byte multiple" % p.size)
        if not p._is_def:
            out.extend([None] * n)
            x += n
            continue
        V = bv.walk(p, env)
        for k in range(n):
            r = ref.d.get((zk, x + k))
            E = r[1] if (r is not None and r[1] is not None) else 1
            out.append((V >> (8 * k)) & 0xFF if E == 1 else (V >> (8 * (n - 1 - k))) & 0xFF)
        x += n
    return out


def expected(ref, zk, a, l):
    return [ref.d[(zk, a + i)][0] if (zk, a + i) in ref.d else None for i in range(l)]


def check_reads(mm, ref, env, zones, mapper_route=True):
    """returns None or (relation, detail)"""
    from amoco.cas.expressions import reg, ptr, mem
    nreads = 0
    for zk in zones:
        if zk is not None and zk not in [getattr(k, "ref", None) for k in mm._zones if k is not None]:
            # zone never created: reads raise MemoryError by design; reference must be empty
            if any(z == zk for (z, _) in ref.d):
                return ("zone-missing", "zone %s not present" % zk), nreads
            continue
        for a in READ_A:
            addr = a if zk is None else ptr(reg(zk, 32), disp=a)
            for l in READ_L:
                nreads += 1
                try:
                    parts = mm.read(addr, l)
                    obs = flatten(parts, ref, zk, a, env)
                except Exception as e:
                    return ("read-exc:%s@%s" % exc_sig(e), "read(%s,%d) raised %r" % (a, l, e)), nreads
                exp_ = expected(ref, zk, a, l)
                if len(obs) != l:
                    return ("read-len", "read(%s,%d) returned %d bytes: %r" % (a, l, len(obs), parts)), nreads
                if obs != exp_:
                    return ("read-val", "zone %s read(%d,%d) = %r expected %r parts=%r" % (
                        zk, a, l, obs, exp_, parts)), nreads
    if mapper_route:
        from amoco.cas.mapper import mapper
        m = mapper()
        m.setmemory(mm)
        base = {None: 0}
        base.update(PVAL)
        for zk in zones:
            if zk is not None and not any(z == zk for (z, _) in ref.d):
                continue
            for a in (0, 1, 2, 3, 5):
                for l in (1, 2, 4):
                    for E in (1, -1):
                        rs = [ref.d.get((zk, a + i)) for i in range(l)]
                        if any(r is not None and r[1] is not None and r[1] != E for r in rs):
                            continue  # mixed endianness: whole-value composition undefined
                        if a < 0:
                            continue
                        nreads += 1
                        from amoco.cas.expressions import cst as _cst
                        pa = ptr(_cst(0, 32), disp=a) if zk is None else ptr(reg(zk, 32), disp=a)
                        b0 = base[zk]
                        eb = [r[0] if r is not None else initmem(b0 + a + i) for i, r in enumerate(rs)]
                        ev = int.from_bytes(bytes(eb), "little" if E == 1 else "big")
                        try:
                            v = m._Mem_read(pa, l, E)
                            wenv = bv.Env(env.regs, lambda ad, n: bytes(initmem(ad + i) for i in range(n)))
                            ov = bv.walk(v, wenv)
                            osz = v.size
                        except bv.Unknown:
                            continue
                        except Exception as e:
                            return ("mapper-exc:%s@%s" % exc_sig(e),
                                    "_Mem_read(%s,%d,%d) raised %r" % (pa, l, E, e)), nreads
                        if osz != 8 * l:
                            return ("mapper-size", "_Mem_read(%s,%d,%d) size %d" % (pa, l, E, osz)), nreads
                        if ov != ev:
                            return ("mapper-val:%s" % ("le" if E == 1 else "be"),
                                    "_Mem_read(%s,%d,%s) = %s -> %#x expected %#x" % (pa, l, E, v, ov, ev)), nreads
    return None, nreads


def apply_op(mm, ref, op, step):
    """apply one operation to implementation and reference; returns topology string"""
    k = op[0]
    if k == "w":
        _, z, off, p = op
        obj, membytes, E = make_payload(tuple(p), step)
        topo = ref.topology(zkey(z), off, off + len(membytes))
        ref.write(zkey(z), off, membytes, E, p[0])
        mm.write(zone_addr(z, off), obj, E if E is not None else 1)
        return "%s%s|%s" % (p[0], "" if E is None else ("le" if E == 1 else "be"), topo)
    if k == "restruct":
        mm.restruct()
        return "restruct"
    if k == "shift":
        _, z, d = op
        for key, zone in mm._zones.items():
            if (key is None and z is None) or (key is not None and getattr(key, "ref", None) == z):
                zone.shift(d)
        ref.shift(z, d)
        return "shift"
    raise ValueError(op)


def build(hist):
    from amoco.system.memory import MemoryMap
    mm = MemoryMap()
    ref = Ref()
    topo = "init"
    originals = []
    for s, op in enumerate(hist):
        if op[0] == "copy":
            originals.append((mm, ref.copy()))
            mm = mm.copy()
            topo = "copy"
        elif op[0] == "merge":
            mm2, ref2 = build(op[1])[:2]
            mm.merge(mm2)
            ref.overlay(ref2)
            topo = "merge"
        else:
            topo = apply_op(mm, ref, op, s)
    return mm, ref, topo, originals


def zones_of(hist):
    zs = set()
    for op in hist:
        if op[0] == "w":
            zs.add(zkey(op[1]))
        elif op[0] == "merge":
            zs |= zones_of(op[1])
    zs.add(None)
    return zs


def hist_sig(hist, topo, rel):
    kinds = [op[0] if op[0] != "w" else "w" for op in hist]
    return ("last=" + topo, "rel=" + rel, "prev=" + "/".join(kinds[:-1][-2:]))


def check_history(hist, env=None):
    """run one history on the real code; returns (Failure or None, nreads, canon)"""
    env = env or bv.Env(regenv())
    try:
        mm, ref, topo, originals = build(hist)
    except Exception as e:
        # find topology of the failing op by rebuilding the prefix on the reference only
        rel = "op-exc:%s@%s" % exc_sig(e)
        topo = "?"
        try:
            _, ref0, _, _ = build(hist[:-1])
            op = hist[-1]
            if op[0] == "w":
                obj, mb, E = make_payload(tuple(op[3]), len(hist) - 1)
                topo = "%s%s|%s" % (op[3][0], "" if E is None else ("le" if E == 1 else "be"),
                                    ref0.topology(zkey(op[1]), op[2], op[2] + len(mb)))
            else:
                topo = op[0]
        except Exception:
            pass
        return Failure(hist_sig(hist, topo, rel), "history %r: operation raised %r" % (hist, e),
                       hist, rank=len(hist)), 0, None
    zs = zones_of(hist)
    bad, n = check_reads(mm, ref, env, zs)
    if bad:
        return Failure(hist_sig(hist, topo, bad[0]), "history %r: %s" % (hist, bad[1]), hist,
                       rank=len(hist)), n, None
    for (omm, oref) in originals:
        bad, n2 = check_reads(omm, oref, env, zs, mapper_route=False)
        n += n2
        if bad:
            return Failure(hist_sig(hist, topo, "original-after-copy:" + bad[0]),
                           "history %r: original map changed after writes to its copy: %s" % (hist, bad[1]),
                           hist, rank=len(hist)), n, None
    return None, n, (canon_map(mm), ref.canon())


# ----------------------------------------------------------------- exploration
def probes_after(hist, tier):
    """non-write transitions tried from every state (not extended further in quick)"""
    zs = zones_of(hist)
    P = [hist + [("restruct",)], hist + [("copy",)]]
    for z in sorted(zs, key=str):
        for d in (1, -1, 3):
            P.append(hist + [("shift", z, d)])
    return P


def explore_root(args):
    """explore all histories below one depth-1 prefix. returns summary dict"""
    root, plan, tier = args
    env = bv.Env(regenv())
    states = set()
    fails = []
    stats = {"histories": 0, "transitions": 0, "reads": 0, "overlaps": 0, "nondet": 0}
    failed_prefixes = []

    def visit(hist, lvl):
        stats["histories"] += 1
        stats["transitions"] += 1
        f, n, canon = check_history(hist, env)
        stats["reads"] += n
        if f is not None:
            fails.append(f.to_json())
            return False
        states.add(hash(canon))
        if stats["histories"] % 1000 == 0:
            f2, _, canon2 = check_history(hist, env)
            if canon2 != canon:
                stats["nondet"] += 1
        return True

    def rec(hist, lvl):
        ok = visit(hist, lvl)
        if not ok:
            return  # longer histories are shadowed by this failing prefix
        # probe transitions from this state
        for ph in probes_after(hist, tier):
            stats["histories"] += 1
            stats["transitions"] += 1
            f, n, _ = check_history(ph, env)
            stats["reads"] += n
            if f is not None:
                fails.append(f.to_json())
        if lvl + 1 < len(plan):
            nxt = plan[lvl + 1]
            for op in nxt:
                rec(hist + [op], lvl + 1)
            # a structural op between two writes changes fragmentation
            if plan_struct(plan, lvl + 1):
                for sop in (("restruct",), ("copy",)):
                    for op in nxt:
                        h2 = hist + [sop, op]
                        stats["histories"] += 1
                        stats["transitions"] += 2
                        f, n, c = check_history(h2, env)
                        stats["reads"] += n
                        if f is not None:
                            fails.append(f.to_json())
                        elif c is not None:
                            states.add(hash(c))

    rec([root], 0)
    return {"states": len(states), "fails": fails, "stats": stats}


def plan_struct(plan, lvl):
    return True


def merge_cases(tier):
    """m1.merge(m2) must read like m1 overlaid with m2"""
    red = write_ops(["int", "p"], False, offs=[0, 1, 2, 3])
    full1 = write_ops(["int"], True)
    cases = []
    for a in red:
        for b in red:
            cases.append([a, ("merge", [b])])
    if tier == "thorough":
        for a in red:
            for b in red:
                if a[1] != b[1]:
                    continue
                for c in write_ops([a[1]], False, offs=[0, 2]):
                    cases.append([a, b, ("merge", [c])])
                    cases.append([a, ("merge", [b, c])])
    else:
        for a in full1:
            for b in write_ops(["int"], False, offs=[0, 2]):
                cases.append([a, ("merge", [b])])
                cases.append([b, ("merge", [a])])
    return cases


def run_merge_chunk(cases):
    env = bv.Env(regenv())
    out = {"fails": [], "n": 0, "reads": 0, "states": 0}
    st = set()
    for h in cases:
        f, n, c = check_history(h, env)
        out["n"] += 1
        out["reads"] += n
        if f is not None:
            out["fails"].append(f.to_json())
        elif c is not None:
            st.add(hash(c))
    out["states"] = len(st)
    return out


def plans(tier):
    """list of (name, [alphabet level0, level1, ...])"""
    full_int = write_ops(["int"], True)
    red_int = write_ops(["int"], False)
    full_p = write_ops(["p"], True)
    red_mixed = write_ops(["int", "cst", "cstw", "p"], False, offs=[0, 1, 2, 3])
    P = []
    if tier == "quick":
        P.append(("depth2-full-concrete", [full_int, full_int]))
        P.append(("depth2-full-symbolic", [full_p, full_p]))
        P.append(("depth3-reduced-concrete", [red_int, red_int, red_int]))
        P.append(("depth2-mixed-zones", [red_mixed, red_mixed]))
    else:
        P.append(("depth3-full-concrete", [full_int, full_int, full_int]))
        P.append(("depth3-full-symbolic", [full_p, full_p, red_int and write_ops(["p"], False)]))
        r4 = write_ops(["int"], False, offs=[0, 1, 2, 3])
        P.append(("depth4-reduced-concrete", [r4, r4, r4, r4]))
        r3m = write_ops(["int", "cstw", "p", "q"], False, offs=[0, 1, 2])
        P.append(("depth3-mixed-zones", [r3m, r3m, r3m]))
    return P


def run(tier, seed):
    rep = Report("C08", "model_checking")
    tot = {"histories": 0, "transitions": 0, "reads": 0, "nondet": 0}
    states = 0
    planinfo = []
    samples = []
    for name, plan in plans(tier):
        roots = core.rotate(plan[0], seed)
        res = core.pmap(explore_root, [(r, plan, tier) for r in roots], chunksize=1)
        ph = 0
        for r in res:
            states += r["states"]
            for k in tot:
                tot[k] += r["stats"][k]
            ph += r["stats"]["histories"]
            for f in r["fails"]:
                rep.add(Failure.from_json(f))
        planinfo.append({"plan": name, "alphabet_sizes": [len(a) for a in plan], "histories": ph})
        samples.append({"plan": name, "history": [roots[0], plan[-1][len(plan[-1]) // 2]]})
    mc = merge_cases(tier)
    mc = core.rotate(mc, seed)
    chunks = [mc[i::core.NPROC * 4] for i in range(core.NPROC * 4)]
    res = core.pmap(run_merge_chunk, [c for c in chunks if c])
    for r in res:
        tot["histories"] += r["n"]
        tot["transitions"] += r["n"] * 2
        tot["reads"] += r["reads"]
        states += r["states"]
        for f in r["fails"]:
            rep.add(Failure.from_json(f))
    planinfo.append({"plan": "merge", "histories": len(mc)})
    samples.append({"plan": "merge", "history": mc[0]})
    if tot["nondet"]:
        rep.harness_errors.append("replay nondeterminism in %d histories" % tot["nondet"])
    # sort failures: shortest history first
    rep.failures.sort(key=lambda f: (f.rank, json.dumps(f.case)))
    rep.coverage.update({
        "states": states, "transitions": tot["transitions"],
        "traces_validated_against_impl": tot["histories"],
        "evaluations": tot["reads"], "distinct_nontrivial": states,
        "rule": "every history of write/copy/restruct/shift/merge operations in the listed plans is "
                "executed on a fresh MemoryMap and after it every range read(a,l), a in -1..10, l in 1..5, "
                "per zone (plus mapper._Mem_read composition in both endiannesses) is compared byte for byte "
                "with a dict reference; distinct = distinct (implementation _map rendering, reference) pairs",
        "plans": planinfo, "samples": samples,
        "closed_below_bound": False,
        "bound": "depth per plan as listed; offsets 0..5; payload menu in c08.payload_menu",
    })
    rep.assumptions = ["reads of zones never written raise MemoryError by design and are not compared",
                       "mapper-route composition is only compared when all covering writers share the reader's endianness"]
    return rep


def replay(case):
    f, n, c = check_history([tuple(op) if not isinstance(op, tuple) else op for op in _tuplify(case)])
    return [f] if f else []


def _tuplify(x):
    if isinstance(x, list):
        return [_tuplify(i) for i in x]
    return x
