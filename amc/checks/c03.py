"""C03 -- instruction specifications mean what the format language says.
(a) every shipped spec, (b) every synthetic format of a bounded grammar,
(c) the x86 '/r' '/digit' ModRM macro -- against amc/ref/fmtlang.py."""
import json, itertools
from amc import core, isas
from amc.core import Failure, Report, exc_sig
from amc.ref import fmtlang


class Rec(object):
    """recording setup function"""
    def __init__(self):
        self.kargs = None
        self.obj = None

    def __call__(self, obj, **kargs):
        self.kargs = kargs
        self.obj = obj


def norm(v):
    """normalise a delivered value for comparison"""
    if hasattr(v, "ival") and hasattr(v, "size"):
        return ("bits", v.ival & ((1 << v.size) - 1) if v.size else 0, v.size)
    return v


def word_bytes(word, nbytes, endian):
    return word.to_bytes(nbytes, "little" if endian == 1 else "big")


def decode_with_recorder(spec, data, endian):
    """returns ('reject',) | ('accept', kargs, attrs, nbytes) | ('exc', type)"""
    from amoco.arch.core import instruction, DecodeError, InstructionError
    rec = Rec()
    saved_hook, saved_pre = spec.hook, spec.precond
    spec.hook = rec
    spec.precond = None
    try:
        try:
            i = spec.decode(data, endian, i=None, iclass=instruction)
        except DecodeError:
            return ("reject",)
        except InstructionError:
            return ("reject-hook",)
        except Exception as ex:
            return ("exc", type(ex).__name__, exc_sig(ex)[1])
        attrs = {}
        for k in spec.iattr:
            if hasattr(i, k):
                attrs[k] = norm(getattr(i, k))
        return ("accept", dict((k, norm(v)) for k, v in rec.kargs.items()), attrs, len(i.bytes))
    finally:
        spec.hook, spec.precond = saved_hook, saved_pre


def expected_fields(fs, word, total_bits):
    kargs, attrs = {}, {}
    for f in fs.fields:
        v = fmtlang.extract(fs, f, word, total_bits)
        (attrs if "." in f.opt else kargs)[f.name] = v
    return kargs, attrs


def compare_delivery(fs, res, word, total_bits):
    """None or (what, detail)"""
    ek, ea = expected_fields(fs, word, total_bits)
    _, kargs, attrs, nbytes = res
    for name, ev in ek.items():
        if name not in kargs:
            return ("field-missing", "argument %s not delivered" % name)
        if kargs[name] != ev:
            f = [x for x in fs.fields if x.name == name][0]
            return ("field-bits:%s" % (f.opt or "int"), "argument %s = %r, documented %r" % (name, kargs[name], ev))
    for name, ev in ea.items():
        if name not in attrs:
            return ("attr-missing", "attribute %s not set" % name)
        if attrs[name] != ev:
            return ("field-bits:.", "attribute %s = %r, documented %r" % (name, attrs[name], ev))
    if nbytes != fs.nbits // 8:
        return ("length", "instruction bytes %d, fixed part %d" % (nbytes, fs.nbits // 8))
    return None


def walking_words(fs):
    nb = fs.nbits
    allm = (1 << nb) - 1
    free = allm & ~fs.mask
    out = [fs.fix, fs.fix | free]
    for b in range(nb):
        if (free >> b) & 1:
            out.append(fs.fix | (1 << b))
            out.append(fs.fix | (free & ~(1 << b)))
    seen, res = set(), []
    for w in out:
        if w not in seen:
            seen.add(w)
            res.append(w)
    return res


def check_spec(spec, fs, endians, all_words=False, tails=(b"",)):
    """yield (what, detail, case) for one spec object against parsed format fs"""
    nbytes = fs.nbits // 8
    # static
    if spec.fix.size != fs.nbits or spec.mask.size != fs.nbits:
        yield ("length", "fix/mask size %d, format says %d bits" % (spec.fix.size, fs.nbits), {})
        return
    if spec.fix.ival != fs.fix:
        yield ("fix", "fix %#x, documented %#x" % (spec.fix.ival, fs.fix), {})
    if spec.mask.ival != fs.mask:
        yield ("mask", "mask %#x, documented %#x" % (spec.mask.ival, fs.mask), {})
    if spec.size != (0 if fs.variable else fs.nbits):
        yield ("size", "size %r, documented %r" % (spec.size, 0 if fs.variable else fs.nbits), {})
    if spec.pfx != fs.pfx:
        yield ("pfx", "pfx %r, documented %r" % (spec.pfx, fs.pfx), {})
    words = list(range(1 << fs.nbits)) if (all_words and fs.nbits <= 8) else walking_words(fs)
    n = 0
    for e in endians:
        for w in words:
            acc = fmtlang.accepts(fs, w)
            for t in (tails if fs.variable else (b"", b"\x5a\xc3")):
                data = word_bytes(w, nbytes, e) + t
                n += 1
                res = decode_with_recorder(spec, data, e)
                case = {"bytes": data.hex(), "endian": e}
                if res[0] == "exc":
                    yield ("decode-exc:%s@%s" % (res[1], res[2]), "decode(%s, endian=%d) raised %s" % (data.hex(), e, res[1]), case)
                    continue
                if acc and res[0] != "accept":
                    yield ("acceptance", "word %#x matches the fixed bits but is rejected (%s)" % (w, res[0]), case)
                    continue
                if not acc:
                    if res[0] == "accept":
                        yield ("acceptance", "word %#x does not match the fixed bits but is accepted" % w, case)
                    continue
                total = fs.nbits + (8 * len(t) if fs.variable else 0)
                word = w | (int.from_bytes(t, "little") << fs.nbits if fs.variable else 0)
                bad = compare_delivery(fs, res, word, total)
                if bad:
                    yield (bad[0], bad[1] + " [word %#x]" % word, case)
        # every single fixed bit flipped must be rejected
        for b in range(fs.nbits):
            if (fs.mask >> b) & 1:
                w = fs.fix ^ (1 << b)
                data = word_bytes(w, nbytes, e)
                n += 1
                res = decode_with_recorder(spec, data, e)
                if res[0] == "accept":
                    yield ("acceptance", "fixed bit %d flipped (%#x) still accepted" % (b, w), {"bytes": data.hex(), "endian": e})
        # truncated input must be rejected
        if nbytes > 0:
            data = word_bytes(fs.fix, nbytes, e)[:nbytes - 1]
            res = decode_with_recorder(spec, data, e)
            n += 1
            if res[0] == "accept":
                yield ("acceptance", "input shorter than the declared length accepted", {"bytes": data.hex(), "endian": e})
    yield ("__count__", n, {})


# ----------------------------------------------------------------- (a) shipped
def shipped_unit(args):
    isa, mode, lo, hi = args
    cpu = isas.load(isa)
    isas.set_mode(cpu, mode)
    d = cpu.disassemble
    S = isas.flatten(d.specs[d.iset()])
    out = []
    n = 0
    nspec = 0
    for s in S[lo:hi]:
        nspec += 1
        try:
            fs = fmtlang.parse(s.format)
        except Exception as ex:
            out.append(Failure(("shipped", isa, "format-unparsed", type(ex).__name__), "cannot parse %r: %r" % (s.format, ex),
                               {"kind": "shipped", "isa": isa, "mode": mode, "format": s.format}).to_json())
            continue
        endians = (1,) if (fs.variable or fs.nbits == 8) else (1, -1)
        for what, detail, case in check_spec(s, fs, endians, tails=(b"", b"\xa5", b"\x01\x02\x83")):
            if what == "__count__":
                n += detail
                continue
            case.update({"kind": "shipped", "isa": isa, "mode": mode, "format": s.format})
            out.append(Failure(("shipped", dirclass(fs), what), "%s spec %r: %s" % (isa, s.format, detail), case, rank=len(s.format)).to_json())
    return out, n, nspec


def dirclass(fs):
    kinds = sorted(set((f.opt or "int") + ("*" if f.hi is None else "") for f in fs.fields))
    return "%s%s|%s" % ("*" if fs.variable else "", fs.direction, ",".join(kinds))


# ----------------------------------------------------------------- (b) synthetic
def compositions(total, maxparts, allowed):
    def rec(rest, k):
        if rest == 0:
            yield []
            return
        if k == 0:
            return
        for a in allowed:
            if a <= rest:
                for tail in rec(rest - a, k - 1):
                    yield [a] + tail
    return list(rec(total, maxparts))


def part_tokens(n, idx):
    """directive menu for a part of n bits"""
    T = ["-" * n, "".join("10"[(i + idx) % 2] for i in range(n))]
    if n == 8:
        T.append("{%02x}" % (0xa5 ^ idx))
    for opt in ("", ".", "~", "#"):
        T.append("%sf%d(%d)" % (opt, idx, n))
    return T


def synthetic_formats(tier):
    out = []
    maxparts = 3 if tier == "quick" else 4
    for LEN, allowed in ((8, [1, 2, 3, 4, 5, 6, 7, 8]), (16, [1, 3, 4, 5, 8, 11, 12, 13, 15, 16])) + (
            ((24, [3, 8, 13, 16, 21, 24]), (32, [1, 5, 8, 16, 24, 27, 31, 32])) if tier == "thorough" else ()):
        for comp in compositions(LEN, maxparts, allowed):
            menus = [part_tokens(n, i) for i, n in enumerate(comp)]
            for toks in itertools.product(*menus):
                for d in ("<", ">"):
                    body = " ".join(toks)
                    out.append("%d%s[ %s ]" % (LEN, d, body))
                    # an overlapping '=' directive after the first part
                    if len(toks) >= 2 and comp[0] >= 2 and toks[0][0] not in "-01{" and LEN == 8:
                        out.append("%d%s[ %s =ov(%d) %s ]" % (LEN, d, toks[0], min(2, comp[0]), " ".join(toks[1:])))
                if LEN == 8 and len(toks) <= 2:
                    out.append("8>[ %s ]+" % " ".join(toks))
                    out.append("8<[ %s ]&" % " ".join(toks))
        # variable tails: (*) at the open end
        for comp in compositions(LEN if LEN <= 16 else 8, 2, allowed if LEN <= 16 else [8]):
            menus = [part_tokens(n, i) for i, n in enumerate(comp)]
            for toks in itertools.product(*menus):
                for opt in ("", "~"):
                    out.append("*>[ %s %sdata(*) ]" % (" ".join(toks), opt))
                    out.append("*<[ %sdata(*) %s ]" % (opt, " ".join(toks)))
                    if sum(comp) <= 8:
                        # fixed LEN, (*) takes the rest of the word
                        out.append("16>[ %s %srest(*) ]" % (" ".join(toks), opt))
                        out.append("16<[ %srest(*) %s ]" % (opt, " ".join(toks)))
    # de-duplicate, drop formats without any fixed bit? (kept: mask 0 is legal for decode)
    seen, res = set(), []
    for f in out:
        if f not in seen:
            seen.add(f)
            res.append(f)
    return res


def synthetic_unit(formats):
    from amoco.arch.core import ispec
    out = []
    n = 0
    for fmt in formats:
        try:
            fs = fmtlang.parse(fmt)
        except Exception as ex:
            out.append(Failure(("synthetic", "harness", type(ex).__name__), "fmtlang cannot parse %r: %r" % (fmt, ex), {"kind": "synthetic", "format": fmt}).to_json())
            continue
        try:
            s = ispec(fmt, mnemonic="T")
        except Exception as ex:
            out.append(Failure(("synthetic", dirclass(fs), "build-exc:%s@%s" % exc_sig(ex)), "ispec(%r) raised %r" % (fmt, ex),
                               {"kind": "synthetic", "format": fmt}, rank=len(fmt)).to_json())
            continue
        endians = (1,) if (fs.variable or fs.nbits == 8) else (1, -1)
        for what, detail, case in check_spec(s, fs, endians, all_words=True, tails=(b"", b"\xa5", b"\x01\x02\x83")):
            if what == "__count__":
                n += detail
                continue
            case.update({"kind": "synthetic", "format": fmt})
            out.append(Failure(("synthetic", dirclass(fs), what), "format %r: %s" % (fmt, detail), case, rank=len(fmt)).to_json())
    return out, n, len(formats)


# ----------------------------------------------------------------- (c) ModRM macro
def modrm_unit(_):
    out = []
    n = 0
    for modname in ("amoco.arch.x86.utils", "amoco.arch.x64.utils"):
        import importlib
        U = importlib.import_module(modname)
        for pre in ("{0f}", "{0f}{38}", "{80}"):
            nop = pre.count("{") * 8
            for tok in ["/r"] + ["/%d" % k for k in range(8)]:
                fmt = "*>[ %s %s ]" % (pre, tok)
                try:
                    s = U.ispec_ia32(fmt, mnemonic="T")
                except Exception as ex:
                    out.append(Failure(("modrm", tok if tok == "/r" else "/digit", "build-exc:%s" % type(ex).__name__),
                                       "%s.ispec_ia32(%r) raised %r" % (modname, fmt, ex), {"kind": "modrm", "module": modname, "format": fmt}).to_json())
                    continue
                # Intel meaning: RM = bits 0-2, REG/digit = bits 3-5, Mod = bits 6-7 of the byte after the opcode
                want = "*>[ %s RM(3) %s Mod(2) ~data(*) ]" % (pre, "REG(3)" if tok == "/r" else "".join(str((int(tok[1]) >> i) & 1) for i in range(3)))
                fs = fmtlang.parse(want)
                for what, detail, case in check_spec(s, fs, (1,), tails=(b"", b"\x24\x11", b"\xff" * 6)):
                    if what == "__count__":
                        n += detail
                        continue
                    case.update({"kind": "modrm", "module": modname, "format": fmt})
                    out.append(Failure(("modrm", tok if tok == "/r" else "/digit", what), "%s %r: %s" % (modname, fmt, detail), case).to_json())
    return out, n, 54


def run(tier, seed):
    rep = Report("C03", "model_checking")
    jobs = []
    for isa, mode in isas.modes():
        try:
            cpu = isas.load(isa)
            n = len(isas.specs_of(cpu, mode))
        except Exception:
            continue
        for lo in range(0, n, 48):
            jobs.append((isa, mode, lo, min(n, lo + 48)))
    jobs = core.rotate(jobs, seed)
    res = core.pmap(shipped_unit, jobs)
    nd = ns = 0
    for out, n, k in res:
        nd += n
        ns += k
        for f in out:
            rep.add(Failure.from_json(f))
    F = core.rotate(synthetic_formats(tier), seed)
    nch = core.NPROC * 8
    res = core.pmap(synthetic_unit, [F[i::nch] for i in range(nch) if F[i::nch]])
    nsyn = 0
    for out, n, k in res:
        nsyn += n
        for f in out:
            rep.add(Failure.from_json(f))
    out, n3, k3 = modrm_unit(None)
    for f in out:
        rep.add(Failure.from_json(f))
    rep.failures.sort(key=lambda f: (f.rank, f.sig))
    rep.coverage.update({
        "states": ns + len(F) + k3, "transitions": nd + nsyn + n3, "traces_validated_against_impl": nd + nsyn + n3,
        "evaluations": nd + nsyn + n3, "distinct_nontrivial": ns + len(F),
        "rule": "(a) every shipped spec of every ISA mode: fix/mask/size/pfx versus an independent parser of the format string; "
                "all walking-1/walking-0 words over the non-fixed bits, both fetch endiannesses, trailing bytes: acceptance and the "
                "value of every field delivered to a recording setup function; every single fixed bit flipped and truncation rejected; "
                "(b) every format of the synthetic grammar (LEN 8/16%s, both directions, <=%d directives from -run, fixed run, {byte}, sym, "
                ".sym, ~sym, #sym, =overlap, (*) tails, +/&) with all 256 words for LEN 8; (c) ModRM macro /r and /0../7; "
                "non-trivial = distinct specs/formats" % (",24,32" if tier == "thorough" else "", 3 if tier == "quick" else 4),
        "shipped_specs": ns, "synthetic_formats": len(F), "decodes": nd + nsyn + n3,
        "samples": [F[0], F[len(F) // 2], F[-1]],
    })
    rep.assumptions = ["walking words determine bit-selection extractors and conjunction-of-literals acceptance completely",
                       "(*) directives are only generated at the open (most significant) end, the documented use"]
    return rep


def replay(case):
    from amoco.arch.core import ispec
    k = case["kind"]
    out = []
    if k == "shipped":
        cpu = isas.load(case["isa"])
        isas.set_mode(cpu, case["mode"])
        d = cpu.disassemble
        for s in isas.flatten(d.specs[d.iset()]):
            if s.format == case["format"]:
                fs = fmtlang.parse(s.format)
                endians = (1,) if (fs.variable or fs.nbits == 8) else (1, -1)
                for what, detail, c in check_spec(s, fs, endians, tails=(b"", b"\xa5", b"\x01\x02\x83")):
                    if what != "__count__":
                        out.append(Failure(("shipped", dirclass(fs), what), detail, case))
                break
    elif k == "synthetic":
        fs = fmtlang.parse(case["format"])
        s = ispec(case["format"], mnemonic="T")
        endians = (1,) if (fs.variable or fs.nbits == 8) else (1, -1)
        for what, detail, c in check_spec(s, fs, endians, all_words=True, tails=(b"", b"\xa5", b"\x01\x02\x83")):
            if what != "__count__":
                out.append(Failure(("synthetic", dirclass(fs), what), detail, case))
    else:
        o, _, _ = modrm_unit(None)
        out = [Failure.from_json(f) for f in o]
    return out
