"""C16 -- structure definitions encode, decode and lay out like C.
Every definition of <=3 (thorough 4) fields over the field-kind alphabet, packed or
not, pointer size 32/64: size/alignment/offsets against a C layout calculator
(itself validated against gcc), unpack values against python struct, pack round trip."""
import json, struct, itertools, os, subprocess, tempfile
from amc import core
from amc.core import Failure, Report, exc_sig
from amc.ref import clayout as CL

# ------------------------------------------------------------------ alphabet
# kind -> (format line template, reference type, struct code or None)
INNER = {
    "In1": ("B : a\nI : b", ("struct", [("a", ("scalar", "B")), ("b", ("scalar", "I"))], False)),
    "In2": ("H : a", ("struct", [("a", ("scalar", "H"))], False)),
    "InP": ("B : a\nI : b", ("struct", [("a", ("scalar", "B")), ("b", ("scalar", "I"))], True)),
    "In3": ("In2 : u\nq : v", ("struct", [("u", ("struct", [("a", ("scalar", "H"))], False)), ("v", ("scalar", "q"))], False)),
    "InPtr": ("P : p\nI : x", ("struct", [("p", ("scalar", "P")), ("x", ("scalar", "I"))], False)),
}
UNION = {"U1": ("B : a\nI : b", ("union", [("a", ("scalar", "B")), ("b", ("scalar", "I"))])),
         # largest member not a multiple of the alignment: sizeof is 8 (tail padding)
         "U2": ("s*5 : s\nI : i", ("union", [("s", ("array", ("scalar", "s"), 5)), ("i", ("scalar", "I"))]))}


def kinds(full):
    K = []
    for c in "BhHiIqQcdP" + ("bfLl" if full else "b"):
        K.append(("sc:" + c, "%s : {n}" % c, ("scalar", c)))
    for c in ("H", "I", "q"):
        K.append(("sc>:" + c, "%s :> {n}" % c, ("scalar", c)))
    for c, n in (("B", 3), ("H", 2), ("I", 3), ("s", 5), ("c", 2)) + ((("q", 2), ("H", 3)) if full else ()):
        K.append(("arr:%s*%d" % (c, n), "%s*%d : {n}" % (c, n), ("array", ("scalar", c), n)))
    for nm in ("In1", "In2", "InP", "In3", "InPtr"):
        K.append(("st:" + nm, "%s : {n}" % nm, INNER[nm][1]))
    K.append(("starr:In2*2", "In2*2 : {n}", ("array", INNER["In2"][1], 2)))
    K.append(("starr:In1*2", "In1*2 : {n}", ("array", INNER["In1"][1], 2)))
    K.append(("un:U1", "U1 : {n}", UNION["U1"][1]))
    K.append(("un:U2", "U2 : {n}", UNION["U2"][1]))
    # one bitfield per line: consecutive lines of the same storage type share a unit while they fit (as in C)
    K.append(("bits1:B4", "B*#4 : {n}", ("bits", "B", [("{n}", 4)])))
    K.append(("td:myint", "myint : {n}", ("scalar", "I")))
    K.append(("bits:B3/5", "B*#3/5 : {n}x/{n}y", ("bits", "B", [("{n}x", 3), ("{n}y", 5)])))
    K.append(("bits:I4/12/16", "I*#4/12/16 : {n}p/{n}q/{n}r", ("bits", "I", [("{n}p", 4), ("{n}q", 12), ("{n}r", 16)])))
    K.append(("bits:H1/15", "H*#1/15 : {n}s/{n}t", ("bits", "H", [("{n}s", 1), ("{n}t", 15)])))
    return K


VARKINDS = [
    ("var:s~", "s*~ : {n}"), ("var:s~B", "s*~B : {n}"), ("var:H~H", "H*~H : {n}"), ("var:c~", "c*~ : {n}"),
    ("var:uleb", "B*%leb128 : {n}"), ("var:sleb", "b*%leb128 : {n}"), ("var:bound", "B : {n}n\ns*.{n}n : {n}"),
    ("var:s~H>", "s*~H :> {n}"), ("var:H~H>", "H*~H :> {n}"), ("var:bound>", "H :> {n}n\ns*.{n}n : {n}"),
]


def setup_types():
    from amoco.system.structs import StructFactory, UnionFactory, TypeDefine
    for nm, (fmt, t) in INNER.items():
        StructFactory(nm, fmt, packed=bool(t[2]))
    for nm, (fmt, t) in UNION.items():
        UnionFactory(nm, fmt)
    TypeDefine("myint", "I")


# ------------------------------------------------------------------ data / expected values
def scalar_value(code, seed, psize):
    n = CL.scalar_size(code, psize)
    if code == "f":
        return [1.5, -2.25, 0.75][seed % 3]
    if code == "d":
        return [3.5, -0.125, 1024.5][seed % 3]
    if code in ("c", "s"):
        return bytes([0x41 + seed % 20])
    raw = bytes(((seed * 37 + 11 + 13 * i) % 251) + 1 for i in range(n))
    v = int.from_bytes(raw, "little")
    if code in "bhiql":
        m = 1 << (8 * n)
        v = v - m if v >= m // 2 else v
    return v


def scode(code, psize):
    if code in ("P", "L"):
        return "I" if psize == 32 else "Q"
    if code == "l":
        return "i" if psize == 32 else "q"
    return code


def encode(t, order, seed, psize):
    """bytes of one value of type t (reference encoding) and the python value amoco should produce"""
    k = t[0]
    if k == "scalar":
        v = scalar_value(t[1], seed, psize)
        return struct.pack(order + scode(t[1], psize), v), v
    if k == "bits":
        n = CL.scalar_size(t[1], psize)
        word = 0
        vals = {}
        pos = 0
        for j, (nm, nb) in enumerate(t[2]):
            v = (seed * 7 + 3 + j * 5) & ((1 << nb) - 1)
            vals[nm] = v
            word |= v << pos
            pos += nb
        return word.to_bytes(n, "little" if order == "<" else "big"), vals
    if k == "array":
        bs, vs = b"", []
        if t[1][0] == "scalar" and t[1][1] in ("s", "c"):
            raw = bytes(0x61 + (seed + i) % 20 for i in range(t[2]))
            return raw, raw
        es = CL.sizeof(t[1], psize)
        for i in range(t[2]):
            b, v = encode(t[1], order, seed + 1 + i, psize)
            bs += b.ljust(es, b"\0")
            vs.append(v)
        return bs, (tuple(vs) if t[1][0] == "scalar" else vs)
    if k == "struct":
        offs, size, al = CL.layout(t, psize)
        buf = bytearray(size)
        vals = {}
        for j, ((nm, m), (_, o, s)) in enumerate(zip(t[1], offs)):
            b, v = encode(m, "<", seed + 3 + j, psize)
            buf[o:o + len(b)] = b
            vals[nm] = v
        return bytes(buf), vals
    if k == "union":
        size = CL.sizeof(t, psize)
        # encode through the largest member
        big = max(t[1], key=lambda nm_m: CL.sizeof(nm_m[1], psize))
        b, v = encode(big[1], "<", seed + 5, psize)
        buf = bytearray(size)
        buf[0:len(b)] = b
        vals = {}
        for nm, m in t[1]:
            s = CL.sizeof(m, psize)
            if m[0] == "scalar":
                vals[nm] = decode_scalar(m, bytes(buf[:s]), psize)
        return bytes(buf), vals
    raise ValueError(t)


def decode_scalar(t, b, psize):
    return struct.unpack("<" + scode(t[1], psize), b)[0]


def same(got, want):
    """compare an unpacked amoco value with the expected python value"""
    if isinstance(want, dict):
        for k, v in want.items():
            try:
                g = got[k] if not isinstance(got, dict) else got[k]
            except Exception:
                return False
            if not same(g, v):
                return False
        return True
    if isinstance(want, (list, tuple)):
        try:
            if len(got) != len(want):
                return False
        except Exception:
            return False
        return all(same(g, w) for g, w in zip(got, want))
    if isinstance(want, float):
        return isinstance(got, float) and got == want
    return got == want


def merge_bit_lines(fields, members, psize):
    """C semantics of one-bitfield-per-line members: adjacent ones of the same storage type share the unit while they fit"""
    merged, mfields = [], []
    for (nm, tt), fld in zip(members, fields):
        if (merged and fld[0].startswith("bits1:") and mfields[-1][0].startswith("bits1:") and merged[-1][1][0] == "bits"
                and merged[-1][1][1] == tt[1] and sum(b for _, b in merged[-1][1][2]) + sum(b for _, b in tt[2]) <= 8 * CL.scalar_size(tt[1], psize)):
            merged[-1] = (merged[-1][0], ("bits", tt[1], merged[-1][1][2] + tt[2]))
        else:
            merged.append((nm, tt))
            mfields.append(fld)
    return merged, mfields


def mixed_bitfield_neighbours(fs):
    """a partially filled bitfield unit next to a bitfield of another storage type: the SysV rule then lets the second
    one start inside the first one's unit, which neither the reference calculator nor the property's wording covers"""
    for a, b in zip(fs, fs[1:]):
        if a[0].startswith("bits") and b[0].startswith("bits") and (a[0].startswith("bits1") or b[0].startswith("bits1")) and a[2][1] != b[2][1]:
            return True
    return False


# ------------------------------------------------------------------ one definition
def check_definition(args):
    """args = (list of kind tuples, packed, psize, varkind or None, is_union)"""
    fields, packed, psize, var, is_union = args
    from amoco.system.structs import StructFactory, UnionFactory
    setup_types()
    out = []
    lines, members = [], []
    order_of = {}
    for j, (kid, tmpl, t) in enumerate(fields):
        nm = "f%d" % j
        lines.append(tmpl.replace("{n}", nm))
        tt = t
        if t[0] == "bits":
            tt = ("bits", t[1], [(a.replace("{n}", nm), b) for a, b in t[2]])
        members.append((nm, tt))
        order_of[nm] = ">" if kid.startswith("sc>") else "<"
    merged, mfields = merge_bit_lines(fields, members, psize)
    all_fields = fields
    members, fields = merged, mfields
    kinds_s = "+".join(k for k, _, _ in all_fields) + (("+" + var[0]) if var else "")
    tag = (kinds_s, "packed" if packed else "natural", "p%d" % psize, "union" if is_union else "struct")
    fmt = "\n".join(lines + ([var[1].replace("{n}", "v")] if var else []))
    case = {"fmt": fmt, "packed": packed, "psize": psize, "union": is_union, "kinds": kinds_s}

    def F(rel, detail, offender="-"):
        out.append((("layout" if rel in ("size", "align", "offsets", "offset_of") else rel, offender, "packed" if packed else "natural",
                     "union" if is_union else "struct"), "definition %r (packed=%s, psize=%d%s): %s" % (fmt, packed, psize, ", union" if is_union else "", detail), case))
    try:
        cls = (UnionFactory("TU", fmt) if is_union else StructFactory("TS", fmt, packed=packed))
    except Exception as ex:
        F("define-exc:%s@%s" % exc_sig(ex), "definition raised %r" % (ex,))
        return out
    rt = ("union", members) if is_union else ("struct", members, packed)
    # ---- static layout (only the fixed part)
    if not var:
        try:
            want_size = CL.sizeof(rt, psize)
            want_al = CL.alignof(rt, psize)
            if cls.size(psize) != want_size:
                F("size", "size(%d) = %r, C says %d" % (psize, cls.size(psize), want_size), offender_kind(fields, members, None))
            if cls.align_value(psize) != want_al:
                F("align", "align_value(%d) = %r, C says %d" % (psize, cls.align_value(psize), want_al), offender_kind(fields, members, None))
        except Exception as ex:
            F("size-exc:%s@%s" % exc_sig(ex), "size/align_value raised %r" % (ex,))
    if is_union:
        offs = [(nm, 0, CL.sizeof(m, psize)) for nm, m in members]
    else:
        offs, fsize, fal = CL.layout(rt, psize)
    try:
        inst = cls()
        got = inst.offsets(psize)
        want = []
        for (nm, m), (_, o, s) in zip(members, offs):
            if m[0] == "bits":
                continue
            want.append((o, s))
        gotf = [g for g in got if isinstance(g[0], int) or float(g[0]).is_integer() and not isinstance(g[1], float)]
        got_plain = [(int(o), s) for (o, s) in got if not (isinstance(s, float) and s < 1)]
        if not var and got_plain[:len(want)] != want:
            k = next((j for j in range(min(len(want), len(got_plain))) if got_plain[j] != want[j]), 0)
            F("offsets", "offsets(%d) = %r, C says %r" % (psize, got_plain, want), offender_kind(fields, members, k))
        for (nm, m), (_, o, s) in zip(members, offs):
            if m[0] == "bits":
                continue
            oo = inst.offset_of(nm, psize)
            if oo != o:
                F("offset_of", "offset_of(%s) = %r, C says %d" % (nm, oo, o), offender_kind(fields, members, [n for n, _ in members].index(nm)))
                break
    except Exception as ex:
        F("offsets-exc:%s@%s" % exc_sig(ex), "offsets/offset_of raised %r" % (ex,))
    # ---- data
    if is_union:
        data, vals = encode(rt, "<", 1, psize)
        expect = vals
    else:
        fixed = bytearray(CL.layout(("struct", members, packed), psize)[1] if members else 0)
        expect = {}
        for j, ((nm, m), (_, o, s)) in enumerate(zip(members, offs)):
            b, v = encode(m, order_of[nm], 2 + 3 * j, psize)
            fixed[o:o + len(b)] = b
            if m[0] == "bits":
                expect.update(v)
            else:
                expect[nm] = v
        data = bytes(fixed)
        if var:
            # the variable field follows the last fixed member (aligned to 1: all variable kinds are byte oriented except H~H)
            end = (offs[-1][1] + offs[-1][2]) if offs else 0
            vb, vv, al = var_bytes(var[0])
            if not packed and al > 1:
                end = (end + al - 1) // al * al
            data = bytes(fixed[:end]).ljust(end, b"\0") + vb
            expect.update(vv)
    trail = b"\xee\xee\xee"
    try:
        inst = cls()
        r = inst.unpack(data + trail, 0, psize)
    except Exception as ex:
        F("unpack-exc:%s@%s" % exc_sig(ex), "unpack(%s) raised %r" % (data.hex(), ex), var[0] if var else offender_kind(fields, members, None))
        return out
    bad = None
    for nm, want in expect.items():
        try:
            got = inst[nm]
        except Exception as ex:
            bad = (nm, "missing (%r)" % ex, want)
            break
        if not same(got, want):
            bad = (nm, repr(got), want)
            break
    if bad:
        idx = [n for n, _ in members]
        off = var[0] if (var and bad[0].startswith("v")) else offender_kind(fields, members, idx.index(bad[0]) if bad[0] in idx else None)
        F("unpack-value", "unpack(%s): field %s = %s, the bytes at its C offset decode to %r" % (data.hex(), bad[0], bad[1], bad[2]), off)
    else:
        # ---- pack round trip
        try:
            p = inst.pack(None, psize) if psize else inst.pack()
        except Exception as ex:
            F("pack-exc:%s@%s" % exc_sig(ex), "pack() of the unpacked values raised %r" % (ex,), var[0] if var else pack_offender(fields))
            return out
        if is_union:
            ok = p == data[:len(p)] and len(p) >= max(CL.sizeof(m, psize) for _, m in members)
        else:
            ok = p == data
        if not ok:
            F("pack-bytes", "pack() gives %s, original bytes %s" % (p.hex(), data.hex()), var[0] if var else pack_offender(fields))
    return out


def offender_kind(fields, members, k):
    if k is None or k >= len(fields):
        # aggregate kinds keep their type name (a finding about one nested type must not hide another's)
        return "/".join(sorted(set(f[0] if f[0].startswith(("st:", "un:", "starr:")) else f[0].split(":")[0] for f in fields)))
    return fields[k][0].split(":")[0] + (":" + fields[k][0].split(":")[1] if fields[k][0].startswith(("st", "un", "td", "bits", "arr", "starr")) else "")


def pack_offender(fields):
    return "/".join(sorted(set(f[0].split(":")[0] for f in fields)))


def var_bytes(kind):
    """(bytes, expected values, alignment) of the trailing variable-length field named v"""
    if kind == "var:s~":
        return b"hello\0", {"v": b"hello\0"}, 1
    if kind == "var:c~":
        return b"abc\0", {"v": b"abc\0"}, 1
    if kind == "var:s~B":
        return b"\x04wxyz", {"v": b"wxyz"}, 1
    if kind == "var:H~H":
        return struct.pack("<HHHH", 3, 0x1111, 0x2222, 0x3333), {"v": (0x1111, 0x2222, 0x3333)}, 2
    if kind == "var:uleb":
        return b"\xe5\x8e\x26", {"v": 624485}, 1
    if kind == "var:sleb":
        return b"\xc0\xbb\x78", {"v": -123456}, 1
    if kind == "var:bound":
        return b"\x03xyz", {"vn": 3, "v": b"xyz"}, 1
    if kind == "var:s~H>":
        return b"\x00\x04wxyz", {"v": b"wxyz"}, 1
    if kind == "var:H~H>":
        # counter and elements of the same size: the placement of a counted array is then unambiguous
        return struct.pack(">HHH", 2, 0x1122, 0x3344), {"v": (0x1122, 0x3344)}, 2
    if kind == "var:bound>":
        return b"\x00\x03xyz", {"vn": 3, "v": b"xyz"}, 2
    raise ValueError(kind)


def leb_cases():
    vals = sorted(set(list(range(0, 301)) + [s * (2 ** k) + d for k in range(0, 40) for s in (1, -1) for d in (-1, 0, 1)]))
    return vals


def leb_unit(_):
    from amoco.system.structs.utils import read_leb128, write_uleb128, write_sleb128
    out = []
    n = 0

    def uleb(v):
        b = bytearray()
        while True:
            x = v & 0x7F
            v >>= 7
            if v:
                b.append(x | 0x80)
            else:
                b.append(x)
                return bytes(b)

    def sleb(v):
        b = bytearray()
        while True:
            x = v & 0x7F
            v >>= 7
            if (v == 0 and not x & 0x40) or (v == -1 and x & 0x40):
                b.append(x)
                return bytes(b)
            b.append(x | 0x80)
    for v in leb_cases():
        n += 1
        try:
            if v >= 0:
                e = uleb(v)
                if write_uleb128(v) != e:
                    out.append((("leb128", "write_uleb128"), "write_uleb128(%d) = %s, expected %s" % (v, write_uleb128(v).hex(), e.hex()), {"leb": v}))
                r = read_leb128(e + b"\x7f", 1, 0)
                if tuple(r) != (v, len(e)):
                    out.append((("leb128", "read_uleb128"), "read_leb128(%s) = %r, expected (%d,%d)" % (e.hex(), r, v, len(e)), {"leb": v}))
            e = sleb(v)
            if write_sleb128(v) != e:
                out.append((("leb128", "write_sleb128"), "write_sleb128(%d) = %s, expected %s" % (v, write_sleb128(v).hex(), e.hex()), {"leb": v}))
            r = read_leb128(b"\x00" + e + b"\x01", -1, 1)
            if tuple(r) != (v, len(e)):
                out.append((("leb128", "read_sleb128"), "read_leb128(%s, signed, offset 1) = %r, expected (%d,%d)" % (e.hex(), r, v, len(e)), {"leb": v}))
        except Exception as ex:
            out.append((("leb128", "exc:%s" % type(ex).__name__), "LEB128 of %d raised %r" % (v, ex), {"leb": v}))
    return out, n


def uleb_ref(v):
    out = bytearray()
    while True:
        b = v & 0x7F
        v >>= 7
        if v:
            out.append(b | 0x80)
        else:
            out.append(b)
            return bytes(out)


def var_array_unit(_):
    """arrays of nested structures whose elements have different lengths (terminated / counted / LEB128 member):
    every element is read where the previous one ended"""
    from amoco.system.structs import StructFactory
    out = []
    n = 0
    variants = [
        ("terminated", "B : kind\ns*~ : name", lambda k, payload: bytes([k]) + payload + b"\0", lambda e: (e.kind, bytes(e.name).rstrip(b"\0"))),
        ("counted", "B : kind\ns*~B : name", lambda k, payload: bytes([k, len(payload)]) + payload, lambda e: (e.kind, bytes(e.name))),
        ("leb128", "B : kind\nB*%leb128 : v", lambda k, payload: bytes([k]) + uleb_ref(len(payload) * 1000 + k), lambda e: (e.kind, e.v)),
    ]
    payloads = [b"abcde", b"xy", b"klmnopq", b"r", b"", b"stuvw"]
    for (vname, fmt, enc, dec) in variants:
        for count in (2, 3, 4, 6):
            for rot in range(len(payloads) if count > 2 else 1):
                items = [(3 + i, payloads[(i + rot) % len(payloads)]) for i in range(count)]
                if vname == "terminated" and any(not p_ for _k, p_ in items):
                    continue
                n += 1
                tn = "VA_%s_%d" % (vname, count)
                case = {"vararray": vname, "count": count, "rot": rot}
                try:
                    El = StructFactory(tn + "_el", fmt)
                    Tb = StructFactory(tn, "H : magic\n%s_el*%d : entries" % (tn, count))
                    raw = b"\x01\x02" + b"".join(enc(k, p_) for k, p_ in items)
                    t = Tb().unpack(raw + b"\xee" * 8)
                    got = [dec(e) for e in t.entries]
                    want = [(k, (p_ if vname != "leb128" else len(p_) * 1000 + k)) for k, p_ in items]
                    if t.magic != 0x0201 or got != want:
                        out.append((("var-array", vname, "unpack-value"), "array of %d %s records: decoded as %r, the bytes encode %r" % (count, vname, got, want), case))
                except Exception as ex:
                    out.append((("var-array", vname, "unpack-exc:%s@%s" % exc_sig(ex)), "array of %d %s records: unpack raised %r" % (count, vname, ex), case))
    return out, n


def definitions(tier):
    full = tier == "thorough"
    K = kinds(full)
    maxf = 4 if full else 3
    out = []
    for n in range(1, maxf + 1):
        pool = K if n <= 2 else (K if (full and n == 3) else [k for k in K if k[0] in (
            "sc:B", "sc:H", "sc:I", "sc:q", "sc:P", "sc:d", "arr:B*3", "st:In1", "st:InP", "st:InPtr", "bits:B3/5", "un:U1", "starr:In2*2",
            "un:U2", "bits1:B4")])
        for fs in itertools.product(pool, repeat=n):
            if mixed_bitfield_neighbours(fs):
                continue
            for packed in (False, True):
                for psize in (32, 64):
                    out.append((list(fs), packed, psize, None, False))
    # a variable-length last field after 0..2 fixed members
    small = [k for k in K if k[0] in ("sc:B", "sc:H", "sc:I", "arr:B*3", "st:In1")]
    for var in VARKINDS:
        for n in range(0, 3):
            for fs in itertools.product(small, repeat=n):
                for packed in (False, True):
                    out.append((list(fs), packed, 64, var, False))
    # unions
    sc = [k for k in K if k[0].startswith(("sc:", "arr:", "st:In1"))]
    for n in (1, 2, 3):
        pool = sc if n < 3 else sc[:8]
        for fs in itertools.product(pool, repeat=n):
            for psize in (32, 64):
                out.append((list(fs), False, psize, None, True))
    return out


def validate_clayout_with_gcc():
    """compile a sizeof/alignof/offsetof table for a set of struct types and compare with clayout"""
    types = []
    K = kinds(True)
    sel = [k for k in K if not k[0].startswith(("bits", "td"))]
    import random
    for a in sel[:14]:
        for b in sel[::3]:
            types.append([a, b])
    for a in sel[::4]:
        for b in sel[::5]:
            for c in sel[::6]:
                types.append([a, b, c])
    KD = dict((k[0], k) for k in K)
    for combo in (["bits1:B4", "bits1:B4", "sc:B"], ["bits1:B4", "sc:H"], ["bits1:B4", "bits1:B4", "bits1:B4", "sc:I"],
                  ["bits:B3/5", "bits1:B4", "sc:B"], ["sc:B", "bits1:B4", "bits1:B4", "sc:B"], ["bits1:B4", "bits:B3/5", "sc:H"]):
        types.append([KD[c] for c in combo])
    res = {"checked": 0, "mismatch": [], "skipped": None}
    d = tempfile.mkdtemp(prefix="amc_c16_")
    try:
        for psize, flag in ((64, "-m64"), (32, "-m32")):
            for packed in (False, True):
                defs, rows, counter = [], [], [0]
                exp = []
                for idx, fs in enumerate(types):
                    members = [("m%d" % j, (f[2] if f[2][0] != "bits" else ("bits", f[2][1], [(a.replace("{n}", "m%d" % j), b) for a, b in f[2][2]])))
                               for j, f in enumerate(fs)]
                    members, _mf = merge_bit_lines(fs, members, psize)
                    t = ("struct", members, packed)
                    decl = CL.c_decl(t, "x", defs, counter)
                    tn = decl.split(" ")[0]
                    named = [(n, m) for n, m in members if m[0] != "bits"]
                    rows.append("sizeof(%s), _Alignof(%s), %s" % (tn, tn, ", ".join("offsetof(%s,%s)" % (tn, n) for n, _ in named)))
                    offs, size, al = CL.layout(t, psize)
                    exp.append([size, al] + [o for (n_, o, _), (_n, m) in zip(offs, members) if m[0] != "bits"])
                src = "#include <stddef.h>\n" + "\n".join(defs) + "\nunsigned long long T[] = {\n" + ",\n".join(rows) + "\n};\n"
                cf = os.path.join(d, "l.c")
                open(cf, "w").write(src)
                # "natural alignment" (the property's wording): i386 gcc needs -malign-double to align 8-byte scalars to 8
                r = subprocess.run(["gcc", flag, "-malign-double", "-c", cf, "-o", os.path.join(d, "l.o")], capture_output=True, text=True)
                if r.returncode != 0:
                    res["skipped"] = "gcc %s failed: %s" % (flag, r.stderr[:200])
                    continue
                subprocess.run(["objcopy", "-O", "binary", "-j", ".data", os.path.join(d, "l.o"), os.path.join(d, "l.bin")], check=True)
                raw = open(os.path.join(d, "l.bin"), "rb").read()
                vals = list(struct.unpack("<%dQ" % (len(raw) // 8), raw))
                flat = [x for e in exp for x in e]
                res["checked"] += len(flat)
                if vals[:len(flat)] != flat:
                    k = next(j for j in range(len(flat)) if vals[j] != flat[j])
                    res["mismatch"].append("psize %d packed %s: entry %d gcc %d clayout %d" % (psize, packed, k, vals[k], flat[k]))
    except FileNotFoundError as ex:
        res["skipped"] = "tool missing: %r" % (ex,)
    finally:
        import shutil
        shutil.rmtree(d, ignore_errors=True)
    return res


def run_chunk(chunk):
    fails = []
    for c in chunk:
        try:
            out = check_definition(c)
        except Exception as ex:
            out = [(("harness", type(ex).__name__), "harness error on %r: %r" % (c, ex), {"def": str(c)})]
        for sig, what, case in out:
            fails.append(Failure(sig, what, case, rank=len(case.get("fmt", ""))).to_json())
    return fails, len(chunk)


def run(tier, seed):
    rep = Report("C16", "model_checking")
    v = validate_clayout_with_gcc()
    if v["mismatch"]:
        rep.harness_errors.append("clayout disagrees with gcc: %s" % v["mismatch"][:3])
    D = core.rotate(definitions(tier), seed)
    # kinds tuples carry templates; make them picklable/compact
    nch = core.NPROC * 8
    res = core.pmap(run_chunk, [D[i::nch] for i in range(nch) if D[i::nch]])
    n = 0
    for fl, k in res:
        n += k
        for f in fl:
            rep.add(Failure.from_json(f))
    # shadowing: a failing definition whose multiset of field kinds strictly contains that of another
    # failing definition (same relation, same packing) is not reported separately
    groups = {}
    for f in rep.failures:
        g = (f.sig[0], f.case.get("packed"), f.case.get("union"))
        groups.setdefault(g, set()).add(tuple(sorted(f.case.get("kinds", "").split("+"))))
    kept = []
    for f in rep.failures:
        g = (f.sig[0], f.case.get("packed"), f.case.get("union"))
        mine = sorted(f.case.get("kinds", "").split("+"))
        sub = False
        for r in range(1, len(mine)):
            for idx in itertools.combinations(range(len(mine)), r):
                if tuple(mine[i] for i in idx) in groups[g]:
                    sub = True
                    break
            if sub:
                break
        if not sub:
            kept.append(f)
    shadowed = len(rep.failures) - len(kept)
    rep.failures = kept
    lo, ln = leb_unit(None)
    for sig, what, case in lo:
        rep.add(Failure(sig, what, case))
    vo, vn = var_array_unit(None)
    for sig, what, case in vo:
        rep.add(Failure(sig, what, case, rank=case.get("count", 0)))
    ln += vn
    rep.failures.sort(key=lambda f: (f.rank, f.sig))
    rep.coverage.update({
        "states": n, "transitions": n * 6 + ln, "traces_validated_against_impl": n,
        "evaluations": n * 6 + ln, "distinct_nontrivial": n,
        "rule": "every definition of <=%d fields over the field-kind alphabet (scalars b..P with byte orders, raw arrays, nested/packed nested "
                "structs and arrays of them, union member, typedef, bitfields) x packed/natural x pointer size 32/64, unions of <=3 members, and "
                "a trailing terminated/counted/bound/LEB128 field after 0..2 fixed members: size, align_value, offsets, offset_of versus a "
                "C layout calculator (validated against gcc -m64/-m32 sizeof/_Alignof/offsetof tables: %d entries, skipped: %s); unpack "
                "values versus python struct at the C offsets; pack() of the unpacked values versus the original bytes; LEB128 read/write "
                "for %d values" % (4 if tier == "thorough" else 3, v["checked"], v["skipped"], ln),
        "gcc_validation": v, "shadowed": shadowed,
        "samples": [{"fmt": "B : f0\nI : f1\nIn1 : f2", "packed": False, "psize": 64}],
    })
    return rep


def replay(case):
    if "vararray" in case:
        out, _ = var_array_unit(None)
        return [Failure(s, w, c) for s, w, c in out if c == case]
    if "leb" in case:
        out, _ = leb_unit(None)
        return [Failure(s, w, c) for s, w, c in out if c.get("leb") == case["leb"]]
    K = dict((k[0], k) for k in kinds(True))
    fs = []
    parts = case["kinds"].split("+")
    var = None
    for p in parts:
        if p.startswith("var:"):
            var = [v for v in VARKINDS if v[0] == p][0]
        else:
            fs.append(K[p])
    out = check_definition((fs, case["packed"], case["psize"], var, case["union"]))
    return [Failure(s, w, c) for s, w, c in out]
