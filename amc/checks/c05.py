"""C05 -- a decoded instruction is determined by the bytes it consumes."""
import json, itertools
from amc import core, isas
from amc.core import Failure, Report, exc_sig
from amc.gen import specwords


def out_of(i):
    if i is None:
        return None
    try:
        ops = [str(o) for o in i.operands]
    except Exception:
        ops = ["?"]
    misc = sorted((str(k), str(v)) for k, v in i.misc.items() if v is not None)
    return [i.bytes.hex(), str(i.mnemonic), ops, i.type, misc]


def dec(d, b):
    setattr(d, "_disassembler__i", None)
    try:
        return out_of(d(b))
    except Exception as ex:
        setattr(d, "_disassembler__i", None)
        return ["exc", type(ex).__name__]


def tails_for(b, n, full):
    T = [b"\x00" * 4, b"\xff" * 4, b"\x90" * 3, b[:n]]
    if full:
        T += [b"\x00", b"\xff" * 16, b"\x80\x00\x00\x00\x00", bytes(range(1, 9))]
    return T


def check_one(isa, mname, d, b, full, stats):
    """yield (relation, detail)"""
    o = dec(d, b)
    if o is None or o[0] == "exc":
        return
    stats["decoded"] += 1
    hexb, n = o[0], len(o[0]) // 2
    if not (1 <= n <= len(b)):
        yield ("length", "decode(%s) reports length %d with %d bytes supplied" % (b.hex(), n, len(b)))
        return
    if bytes.fromhex(hexb) != b[:n]:
        yield ("prefix", "decode(%s).bytes = %s is not a prefix of the input" % (b.hex(), hexb))
        return
    o2 = dec(d, b[:n])
    stats["relations"] += 1
    if o2 != o:
        yield ("truncation-stable", "decode(%s) = %r but decode of exactly its %d bytes gives %r" % (b.hex(), o, n, o2))
    # every shorter input that already decodes must decode to the same instruction (its consumed bytes are a
    # prefix of b, and "those bytes followed by anything else" is b itself)
    for k in range(1, n):
        o5 = dec(d, b[:k])
        stats["relations"] += 1
        if o5 is not None and o5[0] != "exc" and o5 != o:
            yield ("shorter-input", "decode(%s) = %r although the first %d bytes alone already decode to %r" % (b.hex(), o, k, o5))
            break
    for t in tails_for(b, n, full):
        o3 = dec(d, b[:n] + t)
        stats["relations"] += 1
        if o3 != o:
            yield ("extension-stable", "decode(%s) = %r but with the bytes after the instruction replaced by %s: %r" % (b.hex(), o, t.hex(), o3))
            break
    if n <= d.maxlen:
        w = (b[:n] + b"\x00" * d.maxlen)[:d.maxlen]
        o4 = dec(d, w)
        stats["relations"] += 1
        if o4 != o:
            yield ("window", "decode(%s) = %r but the maxlen=%d window %s gives %r" % (b.hex(), o, d.maxlen, w.hex(), o4))
    else:
        yield ("maxlen", "decode(%s) consumed %d bytes, more than the advertised maximum %d" % (b.hex(), n, d.maxlen))


def run_unit(args):
    isa, mode, lo, hi, tier = args
    cpu = isas.load(isa)
    isas.set_mode(cpu, mode)
    d = cpu.disassemble
    S = isas.flatten(d.specs[d.iset()])
    e = d.endian()
    mname = isas.mode_name(mode)
    full = tier == "thorough"
    stats = {"cases": 0, "decoded": 0, "relations": 0}
    fails = []
    for s in S[lo:hi]:
        seen = set()
        hook = getattr(s.hook, "__name__", "?")
        for b in itertools.chain(specwords.cases_for_spec(isa, s, e, d.maxlen, tier), specwords.prefixed_modrm_cases(isa, s, tier), specwords.adrsize_cases(isa, s, tier)):
            if b in seen or not b:
                continue
            seen.add(b)
            stats["cases"] += 1
            isas.set_mode(cpu, mode)
            for rel, detail in check_one(isa, mname, d, b, full, stats):
                fails.append(Failure((isa, mname, rel, hook), "%s %s: %s" % (isa, mname, detail),
                                     {"isa": isa, "mode": mode, "bytes": b.hex()}, rank=len(b)).to_json())
    return {"fails": fails, "stats": stats}


def run(tier, seed):
    rep = Report("C05", "model_checking")
    U = []
    for isa, mode in isas.modes():
        try:
            cpu = isas.load(isa)
            n = len(isas.specs_of(cpu, mode))
        except Exception:
            continue
        step = 16 if isa in ("x86", "x64") else 64
        for lo in range(0, n, step):
            U.append((isa, mode, lo, min(n, lo + step), tier))
    U = core.rotate(U, seed)
    res = core.pmap(run_unit, U)
    tot = {"cases": 0, "decoded": 0, "relations": 0}
    for r in res:
        for k in tot:
            tot[k] += r["stats"][k]
        for f in r["fails"]:
            rep.add(Failure.from_json(f))
    rep.failures.sort(key=lambda f: (f.sig, f.rank, f.case["bytes"]))
    rep.coverage.update({
        "states": tot["cases"], "transitions": tot["relations"], "traces_validated_against_impl": tot["cases"],
        "evaluations": tot["relations"], "distinct_nontrivial": tot["decoded"],
        "rule": "for every spec-driven byte string b of every ISA mode (same enumerator as C17: fields walked, tails, x86 Mod x RM / SIB / "
                "prefix menus) with i = decode(b): 1 <= length <= len(b); i.bytes == b[:length]; decode(b[:length]) == i; "
                "decode(b[:length]+t) == i for each tail t of the menu (zeros, ff, 90, a copy of the instruction); the maxlen window "
                "gives i; length <= maxlen. Equality on (bytes, mnemonic, rendered operands, type, misc); non-trivial = inputs that decoded",
        "samples": [{"isa": U[0][0], "unit": list(U[0][1:4])}, {"isa": "x64", "bytes": "66480fc7"}],
    })
    return rep


def replay(case):
    cpu = isas.load(case["isa"])
    isas.set_mode(cpu, case["mode"])
    d = cpu.disassemble
    st = {"cases": 0, "decoded": 0, "relations": 0}
    return [Failure((case["isa"], isas.mode_name(case["mode"]), rel), detail, case)
            for rel, detail in check_one(case["isa"], isas.mode_name(case["mode"]), d, bytes.fromhex(case["bytes"]), True, st)]
