"""Reference x86 disassemblers (binutils objdump, LLVM llvm-objdump) driven on
32-byte slots: candidate (15 bytes) + 17 NOPs, only the instruction starting at
offset 0 of each slot is read."""
import os, re, subprocess, tempfile, shutil, gzip, json, hashlib

SLOT = 32
_LINE = re.compile(r"^\s*([0-9a-f]+):\t([0-9a-f ]+?)\s*\t(.*)$")
_LINE_LLVM = re.compile(r"^\s*([0-9a-f]+):\s((?:[0-9a-f]{2} )+)\s*\t?(.*)$")


def tools_available():
    return all(shutil.which(t) for t in ("objdump", "llvm-objdump", "objcopy"))


def _parse(text, n, llvm):
    """returns per slot (length, mnemonic, operand text) or None"""
    addrs = []
    info = {}
    rx = _LINE_LLVM if llvm else _LINE
    for line in text.splitlines():
        m = rx.match(line)
        if not m:
            continue
        a = int(m.group(1), 16)
        addrs.append(a)
        if a % SLOT == 0:
            info[a] = m.group(3).strip()
    addrs.sort()
    nxt = {}
    for x, y in zip(addrs, addrs[1:]):
        nxt[x] = y
    out = []
    for k in range(n):
        s = k * SLOT
        if s not in info or s not in nxt:
            out.append(None)
            continue
        txt = info[s]
        parts = txt.split(None, 1)
        mn = parts[0] if parts else ""
        out.append((nxt[s] - s, mn, parts[1] if len(parts) > 1 else "", txt))
    return out


def run_refs(cands, mode, workdir=None):
    """cands: list of 15-byte strings; mode 32|64. returns list of dict(obj=(len,mn,ops), llvm=(...))"""
    d = workdir or tempfile.mkdtemp(prefix="amc_x86ref_")
    try:
        blob = b"".join(c + b"\x90" * (SLOT - len(c)) for c in cands) + b"\x90" * 32
        binf = os.path.join(d, "in.bin")
        open(binf, "wb").write(blob)
        arch = "i386:x86-64" if mode == 64 else "i386"
        r = subprocess.run(["objdump", "-D", "-z", "-b", "binary", "-m", arch, "--insn-width=16", binf], capture_output=True, text=True)
        obj = _parse(r.stdout, len(cands), False)
        elf = "elf64-x86-64" if mode == 64 else "elf32-i386"
        of = os.path.join(d, "o.o")
        subprocess.run(["objcopy", "-I", "binary", "-O", elf, "-B", arch, "--rename-section", ".data=.text,alloc,load,readonly,code,contents", binf, of], check=True)
        r = subprocess.run(["llvm-objdump", "-d", "-z", of], capture_output=True, text=True)
        llvm = _parse(r.stdout, len(cands), True)
        return [{"obj": o, "llvm": l} for o, l in zip(obj, llvm)]
    finally:
        if workdir is None:
            shutil.rmtree(d, ignore_errors=True)


BRANCH = re.compile(r"^(jmp|call|j[a-z]+|loop[a-z]*)[lqw]?$")


def summarize(row):
    """-> (eligible, length, disp or None, why)"""
    o, l = row["obj"], row["llvm"]
    if o is None or l is None:
        return False, None, None, "unparsed"
    if "(bad)" in o[3] or ".byte" in o[3]:
        return False, None, None, "objdump-bad"
    if "<unknown>" in l[3] or not l[1]:
        return False, None, None, "llvm-unknown"
    if o[0] != l[0]:
        return False, None, None, "references-disagree"
    if o[0] > 15:
        return False, None, None, "too-long"
    disp = None
    mo = o[1].split()[-1] if o[1] else ""
    if BRANCH.match(o[1]) and BRANCH.match(l[1].rstrip("lqw") if False else l[1]):
        to = re.match(r"^(?:\*?)0x([0-9a-f]+)$", o[2].strip())
        tl = re.match(r"^0x([0-9a-f]+)(?:\s+<.*>)?$", l[2].strip())
        if to and tl and int(to.group(1), 16) == int(tl.group(1), 16):
            disp = int(to.group(1), 16)      # absolute target inside the blob; caller subtracts slot start + length
    return True, o[0], disp, "ok"


def table_path(verif, mode, tier):
    return os.path.join(verif, "tables", "x86_%d_%s.json.gz" % (mode, tier))


def load_table(path):
    if not os.path.exists(path):
        return {}
    with gzip.open(path, "rt") as f:
        return json.load(f)


def save_table(path, table):
    os.makedirs(os.path.dirname(path), exist_ok=True)
    with gzip.open(path, "wt", compresslevel=9) as f:
        json.dump(table, f, separators=(",", ":"), sort_keys=True)
