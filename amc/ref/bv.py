"""Reference fixed-width two's complement arithmetic and an independent walker
over amoco expression objects.  The walker reads structural attributes only
(.v .size .l .r .op.symbol .parts .x .pos .tst .base .disp .a) and never calls
eval/simplify of the objects it walks."""


class Unknown(Exception):
    """the walker cannot give a definite value (top, undefined, ambiguous sign,
    division by zero, rotation >= width...) -- never an alarm."""


def mask(w):
    return (1 << w) - 1


def sgn(v, w):
    v &= mask(w)
    return v - (1 << w) if (v >> (w - 1)) & 1 else v


def tdiv(a, b):
    """C-style truncated division."""
    q = abs(a) // abs(b)
    return q if (a < 0) == (b < 0) else -q


def tmod(a, b):
    return a - b * tdiv(a, b)


# signed modulo is ambiguous across conventions (C/bvsrem: sign of the dividend,
# Python/bvsmod: sign of the divisor); callers may flip this to accept either.
SMOD_FLOOR = False


def binop(sym, l, r, w, lsf=False, rsf=False, strict_sign=True):
    """value of (l sym r) where l, r are unsigned representatives of width w
    (for shifts r may have any width). Returns (value, width)."""
    m = mask(w)
    if sym == "+":
        return (l + r) & m, w
    if sym == "-":
        return (l - r) & m, w
    if sym == "*":
        return (l * r) & m, w
    if sym == "&":
        return l & r, w
    if sym == "|":
        return l | r, w
    if sym == "^":
        return l ^ r, w
    if sym == "==":
        return int(l == r), 1
    if sym == "!=":
        return int(l != r), 1
    if sym == "<.":
        return int(l < r), 1
    if sym == ">=.":
        return int(l >= r), 1
    if sym == "<<":
        return ((l << r) & m if r < w else 0), w
    if sym == ">>":
        return ((l >> r) if r < w else 0), w
    if sym == ".>>":
        s = sgn(l, w)
        return ((s >> r) & m if r < w else (m if s < 0 else 0)), w
    if sym == ">>>":
        if r >= w:
            raise Unknown("rot>=w")
        return ((l >> r) | (l << (w - r))) & m, w
    if sym == "<<<":
        if r >= w:
            raise Unknown("rot>=w")
        return ((l << r) | (l >> (w - r))) & m, w
    # sign sensitive family
    if sym in ("<", "<=", ">", ">=", "**", "/", "%"):
        if strict_sign and bool(lsf) != bool(rsf):
            raise Unknown("ambiguous sign")
        if lsf:
            a, b = sgn(l, w), sgn(r, w)
        else:
            a, b = l, r
        if sym == "<":
            return int(a < b), 1
        if sym == "<=":
            return int(a <= b), 1
        if sym == ">":
            return int(a > b), 1
        if sym == ">=":
            return int(a >= b), 1
        if sym == "**":
            return (a * b) & mask(2 * w), 2 * w
        if b == 0:
            raise Unknown("div0")
        if sym == "/":
            return tdiv(a, b) & m, w
        if sym == "%":
            return ((a % b) if SMOD_FLOOR else tmod(a, b)) & m, w
    raise Unknown("operator %s" % sym)


def unop(sym, r, w):
    m = mask(w)
    if sym == "-":
        return (-r) & m
    if sym == "~":
        return (~r) & m
    if sym == "+":
        return r & m
    raise Unknown("uop %s" % sym)


class Env(object):
    """valuation: regs = {name: int}; memory = callable(addr,nbytes)->bytes or None"""
    def __init__(self, regs, memory=None):
        self.regs = regs
        self.memory = memory


def _kind(e):
    return type(e).__name__


def walk(e, env):
    """unsigned value of amoco expression e under env (int)."""
    k = _kind(e)
    w = e.size
    if k in ("cst", "sym"):
        return e.v & mask(w)
    if k == "reg":
        if e.ref not in env.regs:
            raise Unknown("unbound %s" % e.ref)
        return env.regs[e.ref] & mask(w)
    if k == "slc":
        return (walk(e.x, env) >> e.pos) & mask(w)
    if k == "comp":
        keys = sorted(e.parts.keys())
        cur = 0
        v = 0
        for (a, b) in keys:
            if a != cur:
                raise ValueError("comp parts do not tile: %r" % (keys,))
            p = e.parts[(a, b)]
            if p.size != b - a:
                raise ValueError("comp part size mismatch")
            v |= walk(p, env) << a
            cur = b
        if cur != w:
            raise ValueError("comp parts do not tile: %r size %d" % (keys, w))
        return v
    if k == "tst":
        c = walk(e.tst, env)
        return walk(e.l, env) if c == 1 else walk(e.r, env)
    if k == "op":
        sym = e.op.symbol
        l = walk(e.l, env)
        r = walk(e.r, env)
        if sym in ("<<", ">>", ".>>", ">>>", "<<<"):
            v, _ = binop(sym, l, r, e.l.size)
        else:
            v, _ = binop(sym, l, r, e.l.size, e.l.sf, e.r.sf)
        return v & mask(w)
    if k == "uop":
        return unop(e.op.symbol, walk(e.r, env), w)
    if k == "ptr":
        d = e.disp
        if not isinstance(d, int):
            raise Unknown("symbolic disp")
        return (walk(e.base, env) + d) & mask(w)
    if k == "mem":
        if env.memory is None or e.mods:
            raise Unknown("mem")
        a = walk(e.a, env)
        b = env.memory(a, w // 8)
        if b is None:
            raise Unknown("mem undefined")
        return int.from_bytes(b, "little" if e.endian == 1 else "big")
    raise Unknown(k)


def fingerprint(e, envs):
    """(size, tuple of values-or-None under each env)"""
    out = []
    for env in envs:
        try:
            out.append(walk(e, env))
        except Unknown as u:
            # "approx": the expression itself is an over-approximation (vec/vecw/top inside); None: the walker has no
            # opinion (unbound register, mixed sign annotations, rotation >= width, symbolic memory...)
            out.append("approx" if str(u) in ("vec", "vecw", "top") else None)
    return (e.size, tuple(out))


def fingerprint_changed(before, after):
    """two fingerprints of the same object differ: other width, or a position on which both have an opinion differs"""
    if not (isinstance(before, tuple) and isinstance(after, tuple)) or len(before) != 2 or len(after) != 2:
        return before != after
    if before[0] != after[0]:
        return True
    if not (isinstance(before[1], tuple) and isinstance(after[1], tuple)):
        return before != after
    return any(x is not None and y is not None and x != y for x, y in zip(before[1], after[1]))


def comps_ok(e, _seen=None):
    """every comp reachable in e tiles its width; returns None or a message."""
    k = _kind(e)
    if k == "comp":
        keys = sorted(e.parts.keys())
        cur = 0
        for (a, b) in keys:
            if a != cur or b <= a:
                return "comp(%d) keys %r" % (e.size, keys)
            p = e.parts[(a, b)]
            if p.size != b - a:
                return "comp part (%d,%d) has size %d" % (a, b, p.size)
            for i in range(a, b):
                if e.smask[i] != (a, b):
                    return "smask[%d]=%r but part is (%d,%d)" % (i, e.smask[i], a, b)
            cur = b
            r = comps_ok(p)
            if r:
                return r
        if cur != e.size:
            return "comp(%d) keys %r" % (e.size, keys)
        if len(e.smask) != e.size:
            return "smask length %d != %d" % (len(e.smask), e.size)
        return None
    for attr in ("l", "r", "x", "tst", "base", "a"):
        c = getattr(e, attr, None)
        if c is not None and hasattr(c, "etype") and not isinstance(c, (list, tuple)):
            r = comps_ok(c)
            if r:
                return r
    if k in ("vec", "vecw"):
        for c in e.l:
            r = comps_ok(c)
            if r:
                return r
    return None
