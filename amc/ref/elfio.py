"""struct-based writer and reader of ELF images, written from the ELF specification
(gABI), independent of amoco.system.structs."""
import struct

PT_NULL, PT_LOAD, PT_DYNAMIC, PT_INTERP, PT_NOTE, PT_GNU_STACK = 0, 1, 2, 3, 4, 0x6474E551
SHT_NULL, SHT_PROGBITS, SHT_SYMTAB, SHT_STRTAB, SHT_RELA, SHT_DYNAMIC, SHT_NOTE, SHT_NOBITS, SHT_REL, SHT_DYNSYM = 0, 1, 2, 3, 4, 6, 7, 8, 9, 11

EHDR = {32: "HHIIIIIHHHHHH", 64: "HHIQQQIHHHHHH"}
EHDR_NAMES = ["e_type", "e_machine", "e_version", "e_entry", "e_phoff", "e_shoff", "e_flags", "e_ehsize",
              "e_phentsize", "e_phnum", "e_shentsize", "e_shnum", "e_shstrndx"]
PHDR = {32: ("IIIIIIII", ["p_type", "p_offset", "p_vaddr", "p_paddr", "p_filesz", "p_memsz", "p_flags", "p_align"]),
        64: ("IIQQQQQQ", ["p_type", "p_flags", "p_offset", "p_vaddr", "p_paddr", "p_filesz", "p_memsz", "p_align"])}
SHDR = {32: ("IIIIIIIIII", ["sh_name", "sh_type", "sh_flags", "sh_addr", "sh_offset", "sh_size", "sh_link", "sh_info", "sh_addralign", "sh_entsize"]),
        64: ("IIQQQQIIQQ", ["sh_name", "sh_type", "sh_flags", "sh_addr", "sh_offset", "sh_size", "sh_link", "sh_info", "sh_addralign", "sh_entsize"])}
SYM = {32: ("IIIBBH", ["st_name", "st_value", "st_size", "st_info", "st_other", "st_shndx"]),
       64: ("IBBHQQ", ["st_name", "st_info", "st_other", "st_shndx", "st_value", "st_size"])}


def pack(order, fmt, names, d):
    return struct.pack(order + fmt, *[d[n] for n in names])


def unpack(order, fmt, names, data, off):
    vals = struct.unpack_from(order + fmt, data, off)
    return dict(zip(names, vals))


def ident(cls, msb):
    return b"\x7fELF" + bytes([1 if cls == 32 else 2, 2 if msb else 1, 1, 0]) + b"\0" * 8


def read(data):
    """independent reader: dict(ehdr, phdrs, shdrs(with 'name'), symtabs{secname: [sym..]}, cls, order)"""
    assert data[:4] == b"\x7fELF"
    cls = 32 if data[4] == 1 else 64
    order = ">" if data[5] == 2 else "<"
    eh = unpack(order, EHDR[cls], EHDR_NAMES, data, 16)
    ph = []
    fmt, names = PHDR[cls]
    for i in range(eh["e_phnum"] if eh["e_phoff"] else 0):
        ph.append(unpack(order, fmt, names, data, eh["e_phoff"] + i * eh["e_phentsize"]))
    sh = []
    fmt, names = SHDR[cls]
    for i in range(eh["e_shnum"] if eh["e_shoff"] else 0):
        sh.append(unpack(order, fmt, names, data, eh["e_shoff"] + i * eh["e_shentsize"]))
    if sh and eh["e_shstrndx"] and eh["e_shstrndx"] < len(sh) and sh[eh["e_shstrndx"]]["sh_type"] == SHT_STRTAB:
        st = sh[eh["e_shstrndx"]]
        tab = data[st["sh_offset"]:st["sh_offset"] + st["sh_size"]]
        for s in sh:
            s["name"] = tab[s["sh_name"]:].split(b"\0")[0].decode()
    syms = {}
    fmt, names = SYM[cls]
    esz = struct.calcsize(order + fmt)
    for s in sh:
        if s["sh_type"] in (SHT_SYMTAB, SHT_DYNSYM) and s["sh_entsize"]:
            L = []
            for i in range(s["sh_size"] // s["sh_entsize"]):
                L.append(unpack(order, fmt, names, data, s["sh_offset"] + i * s["sh_entsize"]))
            strs = sh[s["sh_link"]] if s["sh_link"] < len(sh) else None
            if strs:
                tab = data[strs["sh_offset"]:strs["sh_offset"] + strs["sh_size"]]
                for y in L:
                    y["name"] = tab[y["st_name"]:].split(b"\0")[0].decode()
            syms[s.get("name", "?")] = L
    return {"cls": cls, "order": order, "ehdr": eh, "phdrs": ph, "shdrs": sh, "symtabs": syms}


class Builder(object):
    """lay out an ELF image from a description; returns bytes + the description completed with offsets"""
    def __init__(self, cls=64, msb=False, machine=62, etype=2):
        self.cls, self.msb, self.machine, self.etype = cls, msb, machine, etype
        self.order = ">" if msb else "<"

    def build(self, segments, sections, symbols, entry, layout="ph-first", entpad=0, shstr_last=True):
        """segments: list of dict(type, flags, vaddr, data(bytes), memsz, align)
           sections: list of dict(name, type, flags, addr, data|size, link, info, addralign, entsize) (NULL section added)
           symbols : list of dict(name, value, size, info, other, shndx) -> .symtab/.strtab appended when not empty"""
        cls, order = self.cls, self.order
        ehsize = 16 + struct.calcsize(order + EHDR[cls])
        phent = struct.calcsize(order + PHDR[cls][0]) + entpad
        shent = struct.calcsize(order + SHDR[cls][0]) + entpad
        secs = [dict(name="", type=SHT_NULL, flags=0, addr=0, data=b"", link=0, info=0, addralign=0, entsize=0)] if (sections or symbols) else []
        secs += [dict(s) for s in sections]
        if symbols:
            strtab = b"\0"
            symb = b"\0" * struct.calcsize(order + SYM[cls][0])
            for y in symbols:
                y = dict(y)
                y["st_name"] = len(strtab)
                strtab += y["name"].encode() + b"\0"
                symb += pack(order, SYM[cls][0], SYM[cls][1], dict(st_name=y["st_name"], st_value=y["value"], st_size=y["size"],
                                                                   st_info=y["info"], st_other=y.get("other", 0), st_shndx=y["shndx"]))
            secs.append(dict(name=".symtab", type=SHT_SYMTAB, flags=0, addr=0, data=symb, link=len(secs) + 1, info=1, addralign=8,
                             entsize=struct.calcsize(order + SYM[cls][0])))
            secs.append(dict(name=".strtab", type=SHT_STRTAB, flags=0, addr=0, data=strtab, link=0, info=0, addralign=1, entsize=0))
        shstr = b"\0"
        if secs:
            names = [s["name"] for s in secs] + [".shstrtab"]
            offs = {}
            for n in names:
                if n not in offs:
                    offs[n] = len(shstr) if n else 0
                    if n:
                        shstr += n.encode() + b"\0"
            shs = dict(name=".shstrtab", type=SHT_STRTAB, flags=0, addr=0, data=shstr, link=0, info=0, addralign=1, entsize=0)
            if shstr_last:
                secs.append(shs)
                shstrndx = len(secs) - 1
            else:
                secs.insert(1, shs)
                shstrndx = 1
                for s in secs:
                    if s["type"] == SHT_SYMTAB:
                        s["link"] += 1
                for y in symbols:
                    pass
            for s in secs:
                s["sh_name"] = offs[s["name"]]
        else:
            shstrndx = 0
        # ---- layout
        blob = bytearray(ehsize)
        phoff = shoff = 0

        def place_ph():
            nonlocal phoff
            if segments:
                phoff = len(blob)
                blob.extend(b"\0" * (phent * len(segments)))

        def place_sh():
            nonlocal shoff
            if secs:
                while len(blob) % 8:
                    blob.append(0)
                shoff = len(blob)
                blob.extend(b"\0" * (shent * len(secs)))
        if layout == "ph-first":
            place_ph()
        elif layout == "sh-first":
            place_sh()
            place_ph()
        # segment data (file-backed); congruent offsets when align > 1
        for g in segments:
            a = g.get("align", 1) or 1
            if g["type"] == PT_LOAD and a > 1:
                while (len(blob) % a) != (g["vaddr"] % a):
                    blob.append(0xCC)
            g["offset"] = len(blob)
            blob.extend(g.get("data", b""))
        # section data: sections that live inside a segment reuse its bytes (offset given), others appended
        for s in secs:
            if "offset" in s:
                continue
            if s["type"] in (SHT_NULL,):
                s["offset"] = 0
                continue
            if s["type"] == SHT_NOBITS:
                s["offset"] = len(blob)
                continue
            inseg = s.get("in_segment")
            if inseg is not None:
                g = segments[inseg]
                s["offset"] = g["offset"] + (s["addr"] - g["vaddr"])
                continue
            al = s.get("addralign", 1) or 1
            while len(blob) % al:
                blob.append(0)
            s["offset"] = len(blob)
            blob.extend(s.get("data", b""))
        if layout == "ph-first":
            place_sh()
        blob.extend(b"\xDD" * 4)
        # ---- headers
        eh = dict(e_type=self.etype, e_machine=self.machine, e_version=1, e_entry=entry, e_phoff=phoff, e_shoff=shoff, e_flags=0,
                  e_ehsize=ehsize, e_phentsize=phent if segments else 0, e_phnum=len(segments), e_shentsize=shent if secs else 0,
                  e_shnum=len(secs), e_shstrndx=shstrndx)
        blob[0:16] = ident(cls, self.msb)
        blob[16:ehsize] = pack(order, EHDR[cls], EHDR_NAMES, eh)
        phd = []
        for i, g in enumerate(segments):
            d = dict(p_type=g["type"], p_flags=g.get("flags", 5), p_offset=g["offset"], p_vaddr=g["vaddr"], p_paddr=g.get("paddr", g["vaddr"]),
                     p_filesz=len(g.get("data", b"")), p_memsz=g.get("memsz", len(g.get("data", b""))), p_align=g.get("align", 1))
            phd.append(d)
            o = phoff + i * phent
            blob[o:o + phent - entpad] = pack(order, PHDR[cls][0], PHDR[cls][1], d)
        shd = []
        for i, s in enumerate(secs):
            size = s["size"] if "size" in s else len(s.get("data", b""))
            d = dict(sh_name=s.get("sh_name", 0), sh_type=s["type"], sh_flags=s.get("flags", 0), sh_addr=s.get("addr", 0), sh_offset=s["offset"],
                     sh_size=size, sh_link=s.get("link", 0), sh_info=s.get("info", 0), sh_addralign=s.get("addralign", 0), sh_entsize=s.get("entsize", 0))
            d["name"] = s["name"]
            shd.append(d)
            o = shoff + i * shent
            blob[o:o + shent - entpad] = pack(order, SHDR[cls][0], SHDR[cls][1], d)
        return bytes(blob), {"ehdr": eh, "phdrs": phd, "shdrs": shd}
