"""RV32I / RV64I base integer reference interpreter and encoder, written from
the RISC-V ISA manual (volume I, chapter 2 and 5)."""


def sx(v, bits):
    v &= (1 << bits) - 1
    return v - (1 << bits) if v >> (bits - 1) else v


# ------------------------------------------------------------------ encoders
def R(op, f3, f7, rd, rs1, rs2):
    return (f7 << 25) | (rs2 << 20) | (rs1 << 15) | (f3 << 12) | (rd << 7) | op


def I(op, f3, rd, rs1, imm):
    return ((imm & 0xFFF) << 20) | (rs1 << 15) | (f3 << 12) | (rd << 7) | op


def S(op, f3, rs1, rs2, imm):
    imm &= 0xFFF
    return ((imm >> 5) << 25) | (rs2 << 20) | (rs1 << 15) | (f3 << 12) | ((imm & 0x1F) << 7) | op


def B(op, f3, rs1, rs2, imm):
    imm &= 0x1FFF
    return (((imm >> 12) & 1) << 31) | (((imm >> 5) & 0x3F) << 25) | (rs2 << 20) | (rs1 << 15) | (f3 << 12) | (((imm >> 1) & 0xF) << 8) | (((imm >> 11) & 1) << 7) | op


def U(op, rd, imm20):
    return ((imm20 & 0xFFFFF) << 12) | (rd << 7) | op


def J(op, rd, imm):
    imm &= 0x1FFFFF
    return (((imm >> 20) & 1) << 31) | (((imm >> 1) & 0x3FF) << 21) | (((imm >> 11) & 1) << 20) | (((imm >> 12) & 0xFF) << 12) | (rd << 7) | op


# ------------------------------------------------------------------ interpreter
class Machine(object):
    def __init__(self, xlen, regs, pc, mem):
        self.xlen = xlen
        self.x = list(regs)
        self.x[0] = 0
        self.pc = pc
        self.mem = dict(mem)        # addr -> byte
        self.touched = {}

    def m(self):
        return (1 << self.xlen) - 1

    def load(self, a, n):
        v = 0
        for i in range(n):
            b = self.mem.get((a + i) & self.m())
            if b is None:
                raise KeyError("unmapped")
            v |= b << (8 * i)
        return v

    def store(self, a, n, v):
        for i in range(n):
            self.mem[(a + i) & self.m()] = (v >> (8 * i)) & 0xFF
            self.touched[(a + i) & self.m()] = (v >> (8 * i)) & 0xFF

    def wr(self, rd, v):
        if rd:
            self.x[rd] = v & self.m()

    def step(self, w):
        """execute one 32-bit instruction word; returns mnemonic or None if not a base instruction"""
        X = self.xlen
        M = self.m()
        op = w & 0x7F
        rd = (w >> 7) & 31
        f3 = (w >> 12) & 7
        rs1 = (w >> 15) & 31
        rs2 = (w >> 20) & 31
        f7 = w >> 25
        x = self.x
        pc = self.pc
        npc = (pc + 4) & M
        immI = sx(w >> 20, 12)
        immS = sx(((w >> 25) << 5) | ((w >> 7) & 31), 12)
        immB = sx((((w >> 31) & 1) << 12) | (((w >> 7) & 1) << 11) | (((w >> 25) & 0x3F) << 5) | (((w >> 8) & 0xF) << 1), 13)
        immU = sx(w & 0xFFFFF000, 32)
        immJ = sx((((w >> 31) & 1) << 20) | (((w >> 12) & 0xFF) << 12) | (((w >> 20) & 1) << 11) | (((w >> 21) & 0x3FF) << 1), 21)
        name = None
        if op == 0x37:
            self.wr(rd, immU); name = "LUI"
        elif op == 0x17:
            self.wr(rd, pc + immU); name = "AUIPC"
        elif op == 0x6F:
            self.wr(rd, npc); npc = (pc + immJ) & M; name = "JAL"
        elif op == 0x67 and f3 == 0:
            t = npc
            npc = ((x[rs1] + immI) & M) & ~1
            self.wr(rd, t); name = "JALR"
        elif op == 0x63:
            a, b = x[rs1], x[rs2]
            sa, sb = sx(a, X), sx(b, X)
            c = {0: a == b, 1: a != b, 4: sa < sb, 5: sa >= sb, 6: a < b, 7: a >= b}.get(f3)
            if c is None:
                return None
            if c:
                npc = (pc + immB) & M
            name = {0: "BEQ", 1: "BNE", 4: "BLT", 5: "BGE", 6: "BLTU", 7: "BGEU"}[f3]
        elif op == 0x03:
            a = (x[rs1] + immI) & M
            sz = {0: 1, 1: 2, 2: 4, 4: 1, 5: 2}
            if X == 64:
                sz.update({3: 8, 6: 4})
            if f3 not in sz:
                return None
            v = self.load(a, sz[f3])
            if f3 in (0, 1, 2) or (f3 == 3):
                v = sx(v, 8 * sz[f3])
            self.wr(rd, v)
            name = {0: "LB", 1: "LH", 2: "LW", 3: "LD", 4: "LBU", 5: "LHU", 6: "LWU"}[f3]
        elif op == 0x23:
            sz = {0: 1, 1: 2, 2: 4}
            if X == 64:
                sz[3] = 8
            if f3 not in sz:
                return None
            self.store((x[rs1] + immS) & M, sz[f3], x[rs2])
            name = {0: "SB", 1: "SH", 2: "SW", 3: "SD"}[f3]
        elif op == 0x13:
            a = x[rs1]
            sh = (w >> 20) & (X - 1)
            if f3 == 0: self.wr(rd, a + immI); name = "ADDI"
            elif f3 == 2: self.wr(rd, int(sx(a, X) < immI)); name = "SLTI"
            elif f3 == 3: self.wr(rd, int(a < (immI & M))); name = "SLTIU"
            elif f3 == 4: self.wr(rd, a ^ (immI & M)); name = "XORI"
            elif f3 == 6: self.wr(rd, a | (immI & M)); name = "ORI"
            elif f3 == 7: self.wr(rd, a & (immI & M)); name = "ANDI"
            elif f3 == 1:
                if (w >> 26 if X == 64 else w >> 25) != 0:
                    return None
                self.wr(rd, a << sh); name = "SLLI"
            elif f3 == 5:
                top = (w >> 26) if X == 64 else (w >> 25)
                if top == 0: self.wr(rd, a >> sh); name = "SRLI"
                elif top == (0x10 if X == 64 else 0x20): self.wr(rd, sx(a, X) >> sh); name = "SRAI"
                else: return None
        elif op == 0x33:
            a, b = x[rs1], x[rs2]
            sh = b & (X - 1)
            key = (f3, f7)
            if key == (0, 0): self.wr(rd, a + b); name = "ADD"
            elif key == (0, 0x20): self.wr(rd, a - b); name = "SUB"
            elif key == (1, 0): self.wr(rd, a << sh); name = "SLL"
            elif key == (2, 0): self.wr(rd, int(sx(a, X) < sx(b, X))); name = "SLT"
            elif key == (3, 0): self.wr(rd, int(a < b)); name = "SLTU"
            elif key == (4, 0): self.wr(rd, a ^ b); name = "XOR"
            elif key == (5, 0): self.wr(rd, a >> sh); name = "SRL"
            elif key == (5, 0x20): self.wr(rd, sx(a, X) >> sh); name = "SRA"
            elif key == (6, 0): self.wr(rd, a | b); name = "OR"
            elif key == (7, 0): self.wr(rd, a & b); name = "AND"
            else: return None
        elif op == 0x1B and X == 64:
            a = x[rs1]
            sh = (w >> 20) & 31
            if f3 == 0: self.wr(rd, sx(a + immI, 32)); name = "ADDIW"
            elif f3 == 1 and f7 == 0: self.wr(rd, sx(a << sh, 32)); name = "SLLIW"
            elif f3 == 5 and f7 == 0: self.wr(rd, sx((a & 0xFFFFFFFF) >> sh, 32)); name = "SRLIW"
            elif f3 == 5 and f7 == 0x20: self.wr(rd, sx(sx(a, 32) >> sh, 32)); name = "SRAIW"
            else: return None
        elif op == 0x3B and X == 64:
            a, b = x[rs1], x[rs2]
            sh = b & 31
            key = (f3, f7)
            if key == (0, 0): self.wr(rd, sx(a + b, 32)); name = "ADDW"
            elif key == (0, 0x20): self.wr(rd, sx(a - b, 32)); name = "SUBW"
            elif key == (1, 0): self.wr(rd, sx(a << sh, 32)); name = "SLLW"
            elif key == (5, 0): self.wr(rd, sx((a & 0xFFFFFFFF) >> sh, 32)); name = "SRLW"
            elif key == (5, 0x20): self.wr(rd, sx(sx(a, 32) >> sh, 32)); name = "SRAW"
            else: return None
        else:
            return None
        self.pc = npc & M
        return name
