"""C ABI layout calculator (natural alignment or packed), independent of amoco.
A type is one of
  ("scalar", code)                      code in struct-module letters
  ("array", type, n)
  ("struct", [(name, type), ...], packed)
  ("union",  [(name, type), ...])
  ("bits", code, [(name, nbits), ...])  bitfield storage unit of scalar `code`
"""
import struct

SCALAR = {"b": 1, "B": 1, "c": 1, "s": 1, "x": 1, "h": 2, "H": 2, "i": 4, "I": 4, "q": 8, "Q": 8, "f": 4, "d": 8}


def scalar_size(code, psize):
    if code in ("P", "l", "L"):
        return psize // 8
    return SCALAR[code]


def sizeof(t, psize):
    k = t[0]
    if k == "scalar":
        return scalar_size(t[1], psize)
    if k == "bits":
        return scalar_size(t[1], psize)
    if k == "array":
        return sizeof(t[1], psize) * t[2]
    if k == "struct":
        offs, size, al = layout(t, psize)
        return size
    if k == "union":
        al = alignof(t, psize)
        sz = max(sizeof(m, psize) for _, m in t[1])
        return (sz + al - 1) // al * al
    raise ValueError(t)


def alignof(t, psize):
    k = t[0]
    if k in ("scalar", "bits"):
        return scalar_size(t[1], psize)
    if k == "array":
        return alignof(t[1], psize)
    if k == "struct":
        if t[2]:
            return 1
        return max([alignof(m, psize) for _, m in t[1]] or [1])
    if k == "union":
        return max([alignof(m, psize) for _, m in t[1]] or [1])
    raise ValueError(t)


def layout(t, psize):
    """offsets [(name, offset, size)], total size, alignment of a struct type"""
    assert t[0] == "struct"
    packed = t[2]
    o = 0
    offs = []
    al = 1
    for name, m in t[1]:
        a = 1 if packed else alignof(m, psize)
        al = max(al, a)
        o = (o + a - 1) // a * a
        s = sizeof(m, psize)
        offs.append((name, o, s))
        o += s
    size = o if packed else (o + al - 1) // al * al
    return offs, size, (1 if packed else al)


# ------------------------------------------------------------------ C source for validation with gcc
CTYPE = {"b": "signed char", "B": "unsigned char", "c": "char", "s": "char", "h": "short", "H": "unsigned short",
         "i": "int", "I": "unsigned int", "q": "long long", "Q": "unsigned long long", "f": "float", "d": "double",
         "P": "void*", "l": "long", "L": "unsigned long"}


def c_decl(t, name, defs, counter):
    """returns the C declarator for a member `name` of type t, adding needed typedefs to defs"""
    k = t[0]
    if k == "scalar":
        return "%s %s" % (CTYPE[t[1]], name)
    if k == "array":
        inner = c_decl(t[1], name, defs, counter)
        return inner + "[%d]" % t[2]
    if k in ("struct", "union"):
        tn = "T%d" % counter[0]
        counter[0] += 1
        body = " ".join(c_decl(m, n, defs, counter) + ";" for n, m in t[1])
        attr = " __attribute__((packed))" if (k == "struct" and t[2]) else ""
        defs.append("typedef %s%s { %s } %s;" % (k, attr, body, tn))
        return "%s %s" % (tn, name)
    if k == "bits":
        return " ".join("%s %s:%d;" % (CTYPE[t[1]], n, b) for n, b in t[2])[:-1]
    raise ValueError(t)
