"""Independent interpreter of the ispec format language, written from the
docstring of amoco.arch.core.ispec (no amoco import).

  LEN ('<'|'>') '[' FORMAT ']' ('+'|'&')

parse(fmt) -> Spec with
  nbits     : number of bits of the fixed-length part (multiple of 8)
  variable  : LEN was '*'
  direction : '<' or '>'
  pfx       : False | True ('+') | 'xdata' ('&')
  fix, mask : ints over nbits
  fields    : list of Field(name, opt, lo, hi)  bits [lo,hi) ; hi None = open tail
  dontcare  : list of bit positions declared '-'
"""
import re


class FormatError(Exception):
    pass


class Field(object):
    __slots__ = ("name", "opt", "lo", "hi")

    def __init__(self, name, opt, lo, hi):
        self.name, self.opt, self.lo, self.hi = name, opt, lo, hi

    def __repr__(self):
        return "Field(%s%s[%s:%s])" % (self.opt, self.name, self.lo, self.hi)


class Spec(object):
    pass


_TOK = re.compile(r"""\s*(?:
      (?P<byte>\{[0-9a-fA-F]{2}\})
    | (?P<unk>-)
    | (?P<bit>[01])
    | (?P<dir>(?P<opt>[.~\#=])?\s*(?P<sym>[A-Za-z_][A-Za-z0-9_]*)\s*(?:\(\s*(?P<len>[0-9]+|\*)\s*\))?)
    )""", re.X)

_HEAD = re.compile(r"^\s*(?P<len>[0-9]+|\*)\s*(?P<dir>[<>])?\s*\[(?P<body>.*)\]\s*(?P<sfx>[+&])?\s*$", re.S)


def tokenize(body):
    pos = 0
    out = []
    n = len(body)
    while pos < n:
        if body[pos:].strip() == "":
            break
        m = _TOK.match(body, pos)
        if not m or m.end() == pos:
            raise FormatError("bad token at %r" % body[pos:pos + 10])
        pos = m.end()
        if m.group("byte"):
            out.append(("byte", int(m.group("byte")[1:3], 16)))
        elif m.group("unk"):
            out.append(("unk",))
        elif m.group("bit"):
            out.append(("bit", int(m.group("bit"))))
        else:
            ln = m.group("len")
            if ln is None:
                ln = 1
            elif ln != "*":
                ln = int(ln)
            out.append(("dir", m.group("opt") or "", m.group("sym"), ln))
    return out


def parse(fmt):
    m = _HEAD.match(fmt)
    if not m:
        raise FormatError("bad spec %r" % fmt)
    toks = tokenize(m.group("body"))
    direction = m.group("dir") or "<"
    variable = m.group("len") == "*"
    # width of every token; '=' directives take no room; '(*)' is open
    def tw(t):
        if t[0] == "byte":
            return 8
        if t[0] in ("unk", "bit"):
            return 1
        if t[3] == "*":
            return None
        return 0 if t[1] == "=" else t[3]
    fixed_bits = 0
    star = None
    for i, t in enumerate(toks):
        w = tw(t)
        if w is None:
            if star is not None:
                raise FormatError("two (*) directives")
            star = i
        else:
            fixed_bits += w
    if variable:
        nbits = fixed_bits
    else:
        nbits = int(m.group("len"))
    s = Spec()
    s.format = fmt
    s.variable = variable
    s.direction = direction
    s.pfx = {None: False, "+": True, "&": "xdata"}[m.group("sfx")]
    s.fields = []
    s.dontcare = []
    s.fix = 0
    s.mask = 0
    # assign positions. In '<' the first token is at the most significant end.
    # A (*) directive takes what is left: it must sit at the open end of the word
    # (first token for '<', last token for '>') when LEN is '*'; when LEN is a
    # number it takes the remaining bits of the word.
    star_bits = None
    if star is not None and not variable:
        star_bits = nbits - fixed_bits
        if star_bits < 0:
            raise FormatError("format too wide")
    order = toks if direction == ">" else list(reversed(toks))
    # now `order` runs from bit 0 upward
    cur = 0
    for t in order:
        if t[0] == "byte":
            s.fix |= t[1] << cur
            s.mask |= 0xFF << cur
            cur += 8
        elif t[0] == "unk":
            s.dontcare.append(cur)
            cur += 1
        elif t[0] == "bit":
            s.fix |= t[1] << cur
            s.mask |= 1 << cur
            cur += 1
        else:
            _, opt, sym, ln = t
            if ln == "*":
                if variable:
                    s.fields.append(Field(sym, opt, cur, None))
                    # nothing may follow upward
                else:
                    s.fields.append(Field(sym, opt, cur, cur + star_bits))
                    cur += star_bits
            elif opt == "=":
                # overlaps the ln bits that precede the directive in format order
                if direction == ">":
                    s.fields.append(Field(sym, opt, cur - ln, cur))
                else:
                    s.fields.append(Field(sym, opt, cur, cur + ln))
            else:
                s.fields.append(Field(sym, opt, cur, cur + ln))
                cur += ln
    s.nbits = nbits
    s.used_bits = cur
    return s


def accepts(s, word):
    """word: int over s.nbits (little-endian significance: byte 0 = bits 0..7)"""
    return (word & s.mask) == s.fix


def extract(s, f, word, total_bits):
    """value of field f in `word` (int of total_bits bits) in the documented form"""
    hi = f.hi if f.hi is not None else total_bits
    n = hi - f.lo
    v = (word >> f.lo) & ((1 << n) - 1) if n > 0 else 0
    if "#" in f.opt:
        bits = [(v >> i) & 1 for i in range(n)]          # LSB first
        if s.direction == "<":
            bits.reverse()                                 # format order = MSB first
        return "".join(str(b) for b in bits)
    if "~" in f.opt:
        return ("bits", v, n)
    return v
